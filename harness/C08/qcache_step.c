/* C08 / query cache kernels.  Real: whole src/lib/ares_qcache.c (TU included: statics
 * reachable), str/ares_buf.c + str/ares_str.c (key building), record/ares_dns_mapping.c
 * (opcode/type/class names), ares_library_init.c (allocator wrappers).
 * Stubs: abstract record interface (c08_abs.h: symbolic table of <= 3 RRs per record,
 * recorders for ttl_decrement/destroy), expiry list = harness/stubs/slist_ref.c,
 * key table = harness/C08/strvp_ref.c (reference containers).
 *   OP=0  ares_qcache_insert() of an arbitrary response into a fresh cache (-DOLD=k: holding
 *         one older entry of key kind k), then ares_qcache_fetch() of the same request at any
 *         later time
 *   OP=1  ares_qcache_fetch() from an arbitrary valid cache state with NE entries (key kinds
 *         -DK0 -DK1 -DK2: 0 request's key, 1 same key other spelling, 2 other key)
 *   OP=2  ares_qcache_flush() from an arbitrary valid cache state with NE entries
 * Suspected genuine defect, separately named (-DKF_qcache_soa_ttl switches that one assertion
 * off, -DKFONLY_qcache_soa_ttl restricts the run to its region):
 *   qcache_soa_ttl   a NOERROR response is cached longer than the TTL of an SOA RR it carries
 */
#include "vp.h"
#include "ares_qcache.c"
#include "c08_abs.h"

#ifndef OP
#  define OP 0
#endif
#ifndef NE
#  define NE 1
#endif
#ifdef KF_qcache_soa_ttl
#  define CHECK_soa_ttl 0
#else
#  define CHECK_soa_ttl 1
#endif

extern char  vp_strvp_ins_key[], vp_strvp_get_key[];
extern int   vp_strvp_ins_calls, vp_strvp_get_calls;
int          vp_strvp_key_eq(const char *a, const char *b);
void        *vp_strvp_peek(const ares_htable_strvp_t *h, const char *key);

#define SEC_MAX ((size_t)1 << 40)

static ares_channel_t ch;
static ares_query_t   q;
static ares_qcache_t *qc;
static arec_t        *req;

/* the request: QUERY, RD set / CD clear, one question A IN "a.b" (every key-relevant attribute is concrete here so
 * that the key string has a concrete length; all attribute combinations are covered by the key kernel c08_key) */
#define REQ_NAME   "a.b"
#define OTHER_NAME "c.d"
/* the request's key as the real ares_qcache_calc_key() spells it, the same key in the other letter case (what a
 * 0x20-randomised spelling of the same request yields) and the key of another request */
static char *KEY_SAME, *KEY_SAME2, *KEY_OTHER;

static arec_t *mk_req(const char *name)
{
  arec_t *r = arec_new();
  r->opcode = ARES_OPCODE_QUERY;
  r->flags  = ARES_FLAG_RD;
  r->nq     = 1;
  r->qname  = name;
  r->qtype  = ARES_REC_TYPE_A;
  r->qclass = ARES_CLASS_IN;
  return r;
}
static void mk_request(void)
{
  size_t i, n;
  req       = mk_req(REQ_NAME);
  q.query   = req->h;
  q.channel = &ch;
  KEY_SAME  = ares_qcache_calc_key(req->h);
  KEY_OTHER = ares_qcache_calc_key(mk_req(OTHER_NAME)->h);
  VP_ASSUME(KEY_SAME != NULL && KEY_OTHER != NULL);
  n         = ares_strlen(KEY_SAME);
  KEY_SAME2 = vp_malloc(n + 1);
  for (i = 0; i <= n; i++) {
    char c       = KEY_SAME[i];
    KEY_SAME2[i] = (c >= 'a' && c <= 'z') ? (char)(c - 32) : (c >= 'A' && c <= 'Z') ? (char)(c + 32) : c;
  }
}

static char *dup_str(const char *s)
{
  size_t i, n = 0;
  char  *p;
  while (s[n] != 0)
    n++;
  p = vp_malloc(n + 1);
  for (i = 0; i <= n; i++)
    p[i] = s[i];
  return p;
}

/* an entry as ares_qcache_insert_int() creates it */
typedef struct {
  ares_qcache_entry_t *e;
  arec_t              *rec;
  int                  same; /* key equals the request's key (case-insensitively) */
  time_t               ins, exp;
} pre_t;

/* kind: 0 = the request's key, 1 = the same key in another spelling (case), 2 = another key.  Concrete per job:
 * a symbolic choice would make string lengths (and allocation sizes) symbolic. */
static time_t g_order, g_last_exp;
static void   mk_entry(pre_t *p, int kind, const ares_timeval_t *now_or_null)
{
  p->rec      = arec_new();
  p->e        = vp_malloc(sizeof(*p->e));
  p->ins      = (time_t)vp_range(0, SEC_MAX);
  p->exp      = (time_t)vp_range(0, 2 * SEC_MAX);
  /* invariant: 0 < expire - insert <= max_ttl */
  VP_ASSUME(p->exp > p->ins && (ares_uint64_t)(p->exp - p->ins) <= (ares_uint64_t)qc->max_ttl);
  /* monotonic clock: nothing was inserted in the future */
  if (now_or_null != NULL)
    VP_ASSUME(p->ins <= (time_t)now_or_null->sec);
  p->same         = kind != 2;
  p->e->key       = dup_str(kind == 0 ? KEY_SAME : kind == 1 ? KEY_SAME2 : KEY_OTHER);
  p->e->dnsrec    = p->rec->h;
  p->e->insert_ts = p->ins;
  p->e->expire_ts = g_order++; /* placeholder while linking: keeps the list STRUCTURE concrete (see below) */
  /* every entry is on the expiry list; the key table points to it unless a later entry of the same key took
   * the slot (duplicate insert) or an expired older duplicate removed the key */
  if (vp_bool())
    VP_ASSUME(ares_htable_strvp_insert(qc->cache, p->e->key, p->e));
  VP_ASSUME(ares_slist_insert(qc->expire, p->e) != NULL);
  /* entries are created in expiry order (all key-kind orders are enumerated by the jobs); ties keep insertion order
   * exactly as the list contract says.  The symbolic expiry time is filled in by set_expiry(). */
}
/* second phase, after ALL entries are linked: the real (symbolic) expiry times, nondecreasing in creation order */
static void set_expiry(pre_t *p)
{
  VP_ASSUME(p->exp >= g_last_exp);
  g_last_exp      = p->exp;
  p->e->expire_ts = p->exp;
}

#if OP == 0
static unsigned int umin(unsigned int a, unsigned int b) { return a < b ? a : b; }

static void check_insert(void)
{
  arec_t              *resp;
  ares_timeval_t       now, now2;
  ares_status_t        st, fst;
  unsigned int         max_ttl, min_other = 0xFFFFFFFF, min_soa = 0xFFFFFFFF, nx_ttl = 0, allowed, life_code, life_strict;
  int                  have_soa_auth = 0, ok_kind, has_soa_any = 0;
  size_t               k, pre_len;
  ares_slist_node_t   *n;
  ares_qcache_entry_t *e = NULL;
  const ares_dns_record_t *out = NULL;
  pre_t                old;
  int                  have_old, ins_calls0;

  max_ttl = vp_u32();
  VP_ASSUME(ares_qcache_create(NULL, max_ttl, &qc) == ARES_SUCCESS);
  ch.qcache = qc;
  mk_request();

  now.sec  = (ares_int64_t)vp_range(0, SEC_MAX);
  now.usec = (unsigned int)vp_range(0, 999999);
#ifdef OLD
  have_old = 1;
  mk_entry(&old, OLD, &now);
  set_expiry(&old);
#else
  have_old = 0;
  old.rec  = NULL;
#endif
  pre_len = ares_slist_len(qc->expire);

  resp         = arec_new();
#if defined(RCODE) && RCODE >= 0
  resp->rcode = (ares_dns_rcode_t)RCODE; /* concrete per job */
#elif defined(RCODE)
  resp->rcode = (ares_dns_rcode_t)vp_range(0, 23); /* every rcode that is neither NOERROR nor NXDOMAIN */
  VP_ASSUME(resp->rcode != ARES_RCODE_NOERROR && resp->rcode != ARES_RCODE_NXDOMAIN);
#else
  resp->rcode = (ares_dns_rcode_t)vp_range(0, 23);
#endif
  resp->flags  = vp_u16();
  resp->opcode = ARES_OPCODE_QUERY;
  resp->nq     = 1;
  resp->qname  = REQ_NAME;
  resp->qtype  = ARES_REC_TYPE_A;
  resp->qclass = ARES_CLASS_IN;
#ifdef NRR
  resp->nrr = NRR; /* concrete per job */
#else
  resp->nrr = vp_range(0, C08_MAXRR);
#endif
  for (k = 0; k < C08_MAXRR; k++) {
#ifdef SECTS /* decimal digits, RR k in section digit k (concrete per job) */
    resp->rr[k].sect = (ares_dns_section_t)(k == 0 ? (SECTS / 100) % 10 : k == 1 ? (SECTS / 10) % 10 : SECTS % 10);
#else
    resp->rr[k].sect = (ares_dns_section_t)vp_range(ARES_SECTION_ANSWER, ARES_SECTION_ADDITIONAL);
#endif
    resp->rr[k].type    = (ares_dns_rec_type_t)vp_u16();
    resp->rr[k].ttl     = vp_u32();
    resp->rr[k].soa_min = vp_u32();
  }
  arec_commit(resp);
  /* what the response's own TTLs allow */
  for (k = 0; k < C08_MAXRR; k++) {
    const arr_t *a = &resp->rr[k];
    if (k >= resp->nrr)
      continue;
    if (a->type == ARES_REC_TYPE_OPT || a->type == ARES_REC_TYPE_SIG)
      continue; /* the TTL field of OPT is flags/rcode, SIG(0) has no lifetime */
    if (a->type == ARES_REC_TYPE_SOA) {
      has_soa_any = 1;
      min_soa     = umin(min_soa, a->ttl);
      if (a->sect == ARES_SECTION_AUTHORITY && !have_soa_auth) {
        have_soa_auth = 1;
        nx_ttl        = umin(a->ttl, a->soa_min); /* RFC 2308 s.5 */
      }
    } else {
      min_other = umin(min_other, a->ttl);
    }
  }
#ifdef KFONLY_qcache_soa_ttl
  VP_ASSUME(resp->rcode == ARES_RCODE_NOERROR && has_soa_any);
#endif

  ins_calls0 = vp_strvp_ins_calls;
  st = ares_qcache_insert(&ch, &now, &q, resp->h);

  ok_kind = (resp->rcode == ARES_RCODE_NOERROR || resp->rcode == ARES_RCODE_NXDOMAIN) && !(resp->flags & ARES_FLAG_TC);
  if (resp->rcode == ARES_RCODE_NXDOMAIN) {
    allowed     = have_soa_auth ? nx_ttl : 0;
    life_code   = umin(allowed, max_ttl);
    life_strict = life_code;
  } else {
    allowed     = umin(min_other, min_soa);
    life_code   = umin(min_other, max_ttl); /* the code leaves SOA TTLs out of the minimum */
    life_strict = umin(allowed, max_ttl);
  }

  for (n = ares_slist_node_first(qc->expire); n != NULL; n = ares_slist_node_next(n)) {
    ares_qcache_entry_t *x = ares_slist_node_val(n);
    if (x->dnsrec == resp->h)
      e = x;
  }

  /* the expiry list must stay ordered by expiry time: ares_qcache_expire() only ever looks at its head, so an entry
   * filed out of order outlives its lifetime for as long as a later-expiring entry sits in front of it */
  {
    ares_slist_node_t *pn = NULL;
    for (n = ares_slist_node_first(qc->expire); n != NULL; pn = n, n = ares_slist_node_next(n)) {
      if (pn != NULL) {
        const ares_qcache_entry_t *xa = ares_slist_node_val(pn), *xb = ares_slist_node_val(n);
        VP_ASSERT(xa->expire_ts <= xb->expire_ts, "expiry list stays ordered by expiry time after an insert");
      }
    }
  }

  if (st == ARES_SUCCESS) {
    VP_ASSERT(resp->rcode == ARES_RCODE_NOERROR || resp->rcode == ARES_RCODE_NXDOMAIN, "only NOERROR and NXDOMAIN responses are cached");
    VP_ASSERT(!(resp->flags & ARES_FLAG_TC), "a truncated response is never cached");
    VP_ASSERT(max_ttl != 0, "nothing is cached when the configured maximum is zero");
    VP_ASSERT(e != NULL && ares_slist_len(qc->expire) == pre_len + 1, "a cached response is on the expiry list exactly once");
    VP_ASSERT(!resp->destroyed, "the cache keeps the accepted response alive");
    if (e != NULL) {
      ares_uint64_t life = (ares_uint64_t)(e->expire_ts - e->insert_ts);
      VP_ASSERT(e->insert_ts == (time_t)now.sec, "entry is stamped with the time of acceptance");
      VP_ASSERT(e->expire_ts > e->insert_ts, "a response whose lifetime is zero is not cached");
      VP_ASSERT(life <= max_ttl, "cached lifetime never exceeds the configured maximum");
      if (resp->rcode == ARES_RCODE_NXDOMAIN) {
        VP_ASSERT(have_soa_auth, "NXDOMAIN without an SOA in the authority section is not cached");
        VP_ASSERT(life <= nx_ttl, "NXDOMAIN lifetime never exceeds min(SOA TTL, SOA MINIMUM)");
        VP_WITNESS("nxdomain cached");
      } else {
        VP_ASSERT(life <= min_other, "NOERROR lifetime never exceeds the smallest TTL of its (non OPT/SIG/SOA) records");
        if (has_soa_any) {
          VP_ASSERT(!CHECK_soa_ttl || life <= min_soa,
                    "FINDING qcache_soa_ttl: NOERROR lifetime never exceeds the TTL of an SOA record the response carries");
          VP_WITNESS("noerror with soa cached");
        }
        if (min_other == 0xFFFFFFFF && !has_soa_any)
          VP_WITNESS("NOTE response without any TTL-bearing record is cached for max_ttl");
        VP_WITNESS("noerror cached");
      }
#ifndef NOEXACT
      VP_ASSERT(life == life_code || life == life_strict, "cached lifetime equals min(maximum, what the TTLs allow)");
#endif
      VP_ASSERT(vp_strvp_peek(qc->cache, e->key) == e, "the new entry is the one indexed under its key");
      VP_ASSERT(vp_strvp_key_eq(e->key, KEY_SAME) && vp_strvp_key_eq(vp_strvp_ins_key, e->key), "entry is indexed under the request's key");
    }
  } else {
    VP_ASSERT(e == NULL && ares_slist_len(qc->expire) == pre_len, "a refused response is not on the expiry list");
    VP_ASSERT(vp_strvp_ins_calls == ins_calls0, "refused response: key table untouched");
    VP_ASSERT(!resp->destroyed, "a refused response still belongs to the caller");
    VP_ASSERT(!ok_kind || life_code == 0 || life_strict == 0, "a fresh, complete NOERROR/NXDOMAIN response is cached");
    if (!ok_kind)
      VP_WITNESS("refused rcode/tc");
    else if (max_ttl == 0)
      VP_WITNESS("refused max_ttl 0");
    else
      VP_WITNESS("refused ttl 0");
  }

#ifdef NOFETCH
  (void)now2; (void)fst; (void)out;
  return;
#endif
  /* replay: the same request at any later time */
  now2.sec  = (ares_int64_t)vp_range(0, 2 * SEC_MAX);
  now2.usec = (unsigned int)vp_range(0, 999999);
  VP_ASSUME(now2.sec >= now.sec);
  fst = ares_qcache_fetch(&ch, &now2, req->h, &out);
  VP_ASSERT(fst == ARES_SUCCESS || fst == ARES_ENOTFOUND, "fetch reports hit or miss");
  VP_ASSERT(vp_strvp_get_calls == 1 && vp_strvp_key_eq(vp_strvp_get_key, KEY_SAME), "fetch looks up the request's key");
  if (st == ARES_SUCCESS)
    VP_ASSERT(vp_strvp_key_eq(vp_strvp_get_key, vp_strvp_ins_key), "key used for fetch equals key used for insert");
  if (fst == ARES_SUCCESS) {
    VP_ASSERT(out != NULL, "a hit hands out a record");
    if (out == resp->h) {
      ares_uint64_t age = (ares_uint64_t)(now2.sec - now.sec);
      VP_ASSERT(st == ARES_SUCCESS, "only an accepted response is replayed");
      VP_ASSERT(age < life_strict || age < life_code, "replayed strictly before its lifetime is over");
      VP_ASSERT(age < max_ttl, "never replayed at or after the configured maximum");
      VP_ASSERT(resp->rcode == ARES_RCODE_NXDOMAIN || age < min_other, "never replayed at or after the smallest record TTL");
      VP_ASSERT(resp->rcode != ARES_RCODE_NXDOMAIN || age < nx_ttl, "NXDOMAIN never replayed at or after min(SOA TTL, MINIMUM)");
      VP_ASSERT(!resp->destroyed && resp->dec_calls == 1 && resp->dec == age, "TTL decrement handed to the record equals the time spent cached");
      VP_WITNESS("replayed");
    } else {
      VP_ASSERT(have_old && out == old.rec->h && old.same && !old.rec->destroyed && (time_t)now2.sec < old.exp,
                "any other hit is the older live entry of the same key");
      VP_ASSERT(old.rec->dec_calls == 1 && old.rec->dec == (ares_uint64_t)(now2.sec - old.ins), "older entry: TTL decrement equals its age");
      VP_WITNESS("older entry replayed");
    }
  } else {
    VP_ASSERT(out == NULL, "a miss hands out nothing");
    if (st == ARES_SUCCESS && !have_old)
      VP_ASSERT((ares_uint64_t)(now2.sec - now.sec) >= life_code || (ares_uint64_t)(now2.sec - now.sec) >= life_strict,
                "a live entry is found (no other entry interferes)");
    if (st == ARES_SUCCESS)
      VP_WITNESS("expired, not replayed");
  }
  if (st == ARES_SUCCESS && resp->destroyed)
    VP_ASSERT((ares_uint64_t)(now2.sec - now.sec) >= life_code || (ares_uint64_t)(now2.sec - now.sec) >= life_strict,
              "a cached response is destroyed only once its lifetime is over");
}
#endif

#if OP == 1 || OP == 2
static pre_t ent[NE > 0 ? NE : 1];

static void build_state(const ares_timeval_t *now)
{
  unsigned int max_ttl = vp_u32();
  size_t       i;
  VP_ASSUME(ares_qcache_create(NULL, max_ttl, &qc) == ARES_SUCCESS);
  ch.qcache = qc;
  mk_request();
#if NE > 0
  mk_entry(&ent[0], K0, now);
#endif
#if NE > 1
  mk_entry(&ent[1], K1, now);
#endif
#if NE > 2
  mk_entry(&ent[2], K2, now);
#endif
  for (i = 0; i < NE; i++)
    set_expiry(&ent[i]);
}
#endif

#if OP == 1
static void check_fetch(void)
{
  ares_timeval_t           now;
  const ares_dns_record_t *out = NULL;
  ares_status_t            st;
  size_t                   i, live = 0, same_live = 0, same_any = 0;
  int                      hit = -1;

  now.sec  = (ares_int64_t)vp_range(0, 2 * SEC_MAX);
  now.usec = (unsigned int)vp_range(0, 999999);
  build_state(&now);

  st = ares_qcache_fetch(&ch, &now, req->h, &out);

  VP_ASSERT(st == ARES_SUCCESS || st == ARES_ENOTFOUND, "fetch reports hit or miss");
  VP_ASSERT(vp_strvp_key_eq(vp_strvp_get_key, KEY_SAME), "fetch looks up the request's key");
  for (i = 0; i < NE; i++) {
    if (ent[i].exp <= (time_t)now.sec) {
      VP_ASSERT(ent[i].rec->destroyed, "an entry whose lifetime is over is discarded by the next lookup");
      VP_WITNESS("expired entry discarded");
    } else {
      VP_ASSERT(!ent[i].rec->destroyed, "a live entry is kept");
      live++;
      if (ent[i].same)
        same_live++;
    }
    if (ent[i].same)
      same_any++;
    if (out != NULL && out == ent[i].rec->h)
      hit = (int)i;
  }
  VP_ASSERT(ares_slist_len(qc->expire) == live, "expiry list holds exactly the live entries");
  if (st == ARES_SUCCESS) {
    VP_ASSERT(hit >= 0, "a hit hands out the record of a cache entry");
    if (hit >= 0) {
      const pre_t *p = &ent[hit];
      VP_ASSERT(qc->max_ttl != 0, "nothing is replayed when the configured maximum is zero");
      VP_ASSERT(p->same, "the replayed entry was stored under the request's key");
      VP_ASSERT((time_t)now.sec < p->exp, "an entry is replayed only strictly before its expiry");
      VP_ASSERT(!p->rec->destroyed, "the replayed record is alive");
      VP_ASSERT(p->rec->dec_calls == 1 && p->rec->dec == (ares_uint64_t)((time_t)now.sec - p->ins),
                "TTL decrement handed to the record equals now - insert time");
      VP_ASSERT((ares_uint64_t)p->rec->dec < (ares_uint64_t)(p->exp - p->ins) && p->rec->dec < qc->max_ttl,
                "time spent cached is below the entry's lifetime and the configured maximum");
      VP_WITNESS("hit");
    }
  } else {
    VP_ASSERT(out == NULL, "a miss hands out nothing");
    for (i = 0; i < NE; i++)
      VP_ASSERT(ent[i].rec->dec_calls == 0, "a miss touches no record");
    /* completeness where no duplicate/expired sibling can have taken the key: */
    if (same_any == 1 && same_live == 1)
      for (i = 0; i < NE; i++)
        if (ent[i].same)
          VP_ASSERT(vp_strvp_peek(qc->cache, KEY_SAME) == NULL, "a miss means the key is not indexed");
    VP_WITNESS("miss");
  }
  if (qc->max_ttl == 0)
    VP_ASSERT(st == ARES_ENOTFOUND, "max_ttl 0: never a hit");
  /* the cache stays consistent: tearing it down releases every remaining entry exactly once */
  ares_qcache_destroy(qc);
  for (i = 0; i < NE; i++)
    VP_ASSERT(ent[i].rec->destroyed, "destroying the cache releases every entry");
}
#endif

#if OP == 2
static void check_flush(void)
{
  ares_timeval_t now;
  size_t         i;
  now.sec  = (ares_int64_t)vp_range(0, 2 * SEC_MAX);
  now.usec = 0;
  build_state(&now);
  ares_qcache_flush(qc);
  VP_ASSERT(ares_slist_len(qc->expire) == 0, "flush empties the expiry list");
  VP_ASSERT(ares_htable_strvp_num_keys(qc->cache) == 0, "flush empties the key table");
  for (i = 0; i < NE; i++)
    VP_ASSERT(ent[i].rec->destroyed, "flush releases every cached response");
  {
    const ares_dns_record_t *out = NULL;
    VP_ASSERT(ares_qcache_fetch(&ch, &now, req->h, &out) == ARES_ENOTFOUND && out == NULL, "nothing is replayed after a flush");
  }
  if (NE > 0)
    VP_WITNESS("flushed entries");
  ares_qcache_destroy(qc);
}
#endif

void harness(void)
{
  vp_alloc_install();
#if OP == 0
  check_insert();
#elif OP == 1
  check_fetch();
#else
  check_flush();
#endif
  VP_WITNESS("end");
}
