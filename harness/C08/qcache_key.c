/* C08 / cache key: real ares_qcache_calc_key() on two abstract one-question requests.
 * Equal keys (under the key table's relation, the real ares_strcaseeq) must imply the same
 * opcode, RD, CD, qtype, qclass and the same name up to case and one trailing dot; requests
 * that agree on those attributes (and differ in any other header flag) must map to equal keys.
 * Real: ares_qcache.c (included), str/ares_buf.c, str/ares_str.c, record/ares_dns_mapping.c.
 * The all-attributes-symbolic version does not reach a verdict (symbolic offsets into the key
 * buffer: no verdict in 240 s, out of memory at 8 GB without the case-splitting allocator), so
 * the claim is decomposed:
 * Even ONE attribute symbolic in both requests only closes for the last field (the name); an early
 * symbolic field puts everything after it at a symbolic offset (no verdict in 240 s).  Hence:
 *   -DVARY=0..3 : both requests are a concrete baseline (-DBASE=0: QUERY rd A IN, -DBASE=1: UPDATE
 *                 cd 65280 ANY) except ONE attribute; the job runs through every unordered pair of its
 *                 values, each pair with concrete values (so concrete key lengths): 0 opcode (5 valid opcodes), 1 header
 *                 flags (all RD/CD pairs with the other 14 bits all-clear vs all-set, and every
 *                 other bit toggled on its own), 2 qtype over
 *                 {A,NS,AAAA,ANY,65280,65281} (any qtype is valid in a query), 3 class (5 valid)
 *   -DVARY=4    : the name is symbolic in both (-DL1/-DL2 characters over {a,A,b,B,-}, -DDOT1/
 *                 -DDOT2 trailing dot)
 *   -DVARY=5    : field lemma - every opcode/type/class mnemonic is non-empty and free of '|',
 *                 mnemonics of different values differ (qtype over the whole 16-bit range), so the
 *                 '|'-separated key splits uniquely into its five fields
 * Suspected genuine defect, separately named (-DKF_qcache_key_unknown_type switches that one
 * assertion off, -DKFONLY_... restricts the run to two different unknown types):
 *   qcache_key_unknown_type   every qtype without a mnemonic is spelled "UNKNOWN" in the key */
#include "vp.h"
#include "ares_qcache.c"
#include "c08_abs.h"

#ifndef L1
#  define L1 1
#endif
#ifndef L2
#  define L2 1
#endif
#ifndef DOT1
#  define DOT1 0
#endif
#ifndef DOT2
#  define DOT2 0
#endif
#ifdef KF_qcache_key_unknown_type
#  define CHECK_unknown_type 0
#else
#  define CHECK_unknown_type 1
#endif

#ifndef VARY
#  define VARY 2
#endif
#ifndef BASE
#  define BASE 0
#endif
#if VARY == 0 || VARY == 3
#  define NVAL 5
#elif VARY == 1
#  define NVAL 4
#else
#  define NVAL 6
#endif
#if BASE == 0
#  define B_OPCODE ARES_OPCODE_QUERY
#  define B_FLAGS  ARES_FLAG_RD
#  define B_TYPE   ARES_REC_TYPE_A
#  define B_CLASS  ARES_CLASS_IN
#else
#  define B_OPCODE ARES_OPCODE_UPDATE
#  define B_FLAGS  ARES_FLAG_CD
#  define B_TYPE   ((ares_dns_rec_type_t)65280)
#  define B_CLASS  ARES_CLASS_ANY
#endif

#if VARY == 4
static char name1[L1 + DOT1 + 1], name2[L2 + DOT2 + 1];
#else
#  undef L1
#  undef L2
#  define L1 2
#  define L2 2
static char name1[] = "aB."; /* the same name in two spellings */
static char name2[] = "Ab";
#endif

static char arb_char(void)
{
  unsigned c = vp_u8();
  VP_ASSUME(c < 5);
  return c == 0 ? 'a' : c == 1 ? 'A' : c == 2 ? 'b' : c == 3 ? 'B' : '-';
}
static ares_dns_rec_type_t arb_type(void)
{
  unsigned c = vp_u8();
  VP_ASSUME(c < 6);
  return c == 0 ? ARES_REC_TYPE_A : c == 1 ? ARES_REC_TYPE_NS : c == 2 ? ARES_REC_TYPE_AAAA : c == 3 ? ARES_REC_TYPE_ANY :
         c == 4 ? (ares_dns_rec_type_t)65280 : (ares_dns_rec_type_t)65281;
}
static ares_dns_class_t arb_class(void)
{
  unsigned c = vp_u8();
  VP_ASSUME(c < 5);
  return c == 0 ? ARES_CLASS_IN : c == 1 ? ARES_CLASS_CHAOS : c == 2 ? ARES_CLASS_HESOID : c == 3 ? ARES_CLASS_NONE : ARES_CLASS_ANY;
}
static ares_dns_opcode_t arb_opcode(void)
{
  unsigned c = vp_u8();
  VP_ASSUME(c < 5);
  return c == 0 ? ARES_OPCODE_QUERY : c == 1 ? ARES_OPCODE_IQUERY : c == 2 ? ARES_OPCODE_STATUS : c == 3 ? ARES_OPCODE_NOTIFY :
                                                                                                          ARES_OPCODE_UPDATE;
}
/* the varying attribute: value number v of its set (concrete per job: -DV1 -DV2), so that the key length is concrete */
static ares_dns_opcode_t   sel_opcode(int v) { return v == 0 ? ARES_OPCODE_QUERY : v == 1 ? ARES_OPCODE_IQUERY : v == 2 ? ARES_OPCODE_STATUS : v == 3 ? ARES_OPCODE_NOTIFY : ARES_OPCODE_UPDATE; }
static ares_dns_rec_type_t sel_type(int v) { return v == 0 ? ARES_REC_TYPE_A : v == 1 ? ARES_REC_TYPE_NS : v == 2 ? ARES_REC_TYPE_AAAA : v == 3 ? ARES_REC_TYPE_ANY : v == 4 ? (ares_dns_rec_type_t)65280 : (ares_dns_rec_type_t)65281; }
static ares_dns_class_t    sel_class(int v) { return v == 0 ? ARES_CLASS_IN : v == 1 ? ARES_CLASS_CHAOS : v == 2 ? ARES_CLASS_HESOID : v == 3 ? ARES_CLASS_NONE : ARES_CLASS_ANY; }
/* header flags are concrete per call: CBMC does not fold (x & ~(RD|CD)) | c, so a symbolic "other" bit makes the
 * key length symbolic (measured: solver out of memory at 8 GB) */
static unsigned short sel_flags(int v) { return (unsigned short)v; }
static arec_t *arb_request(char *name, size_t len, int dot, int v)
{
  arec_t *r = arec_new();
  size_t  i;
  (void)i; (void)len; (void)dot;
#if VARY == 4
  for (i = 0; i < len; i++)
    name[i] = arb_char();
  if (dot)
    name[len] = '.';
  name[len + (dot ? 1 : 0)] = 0;
#endif
  (void)v;
  r->opcode = (VARY == 0) ? sel_opcode(v) : B_OPCODE;
  r->flags  = (VARY == 1) ? sel_flags(v) : B_FLAGS;
  r->nq     = 1;
  r->qname  = name;
  r->qtype  = (VARY == 2) ? sel_type(v) : B_TYPE;
  r->qclass = (VARY == 3) ? sel_class(v) : B_CLASS;
  return r;
}
static int lower(int c) { return (c >= 'A' && c <= 'Z') ? c + 32 : c; }
/* same name: case-insensitive, one trailing dot is immaterial (lengths are concrete) */
static int same_name(void)
{
  size_t i;
  if (L1 != L2)
    return 0;
  for (i = 0; i < L1; i++)
    if (lower(name1[i]) != lower(name2[i]))
      return 0;
  return 1;
}

#if VARY == 5
static int has_bar_or_empty(const char *s)
{
  size_t i;
  if (s[0] == 0)
    return 1;
  for (i = 0; s[i] != 0; i++)
    if (s[i] == '|')
      return 1;
  return 0;
}
void harness(void)
{
  ares_dns_rec_type_t t1 = (ares_dns_rec_type_t)vp_u16(), t2 = (ares_dns_rec_type_t)vp_u16();
  ares_dns_class_t    c1 = arb_class(), c2 = arb_class();
  ares_dns_opcode_t   o1 = arb_opcode(), o2 = arb_opcode();
  const char         *s1 = ares_dns_rec_type_tostr(t1), *s2 = ares_dns_rec_type_tostr(t2);
  VP_ASSERT(!has_bar_or_empty(s1), "type mnemonic is non-empty and contains no field separator");
  VP_ASSERT(!has_bar_or_empty(ares_dns_class_tostr(c1)), "class mnemonic is non-empty and contains no field separator");
  VP_ASSERT(!has_bar_or_empty(ares_dns_opcode_tostr(o1)), "opcode mnemonic is non-empty and contains no field separator");
  VP_ASSERT(c1 == c2 || !ares_strcaseeq(ares_dns_class_tostr(c1), ares_dns_class_tostr(c2)), "different valid classes have different mnemonics");
  VP_ASSERT(o1 == o2 || !ares_strcaseeq(ares_dns_opcode_tostr(o1), ares_dns_opcode_tostr(o2)), "different valid opcodes have different mnemonics");
  if (!ares_streq(s1, "UNKNOWN") || !ares_streq(s2, "UNKNOWN"))
    VP_ASSERT(t1 == t2 || !ares_strcaseeq(s1, s2), "different question types with a mnemonic have different mnemonics");
  else if (t1 != t2)
    VP_WITNESS("NOTE different types share the mnemonic UNKNOWN");
  VP_WITNESS("end");
}
#else
static void check_pair(int v1, int v2)
{
  arec_t *r1, *r2;
  char   *k1, *k2;
  int     eq, same_attr, same_type, unknown_pair;

  g_nrec = 0;
  r1 = arb_request(name1, L1, DOT1, v1);
  r2 = arb_request(name2, L2, DOT2, v2);
  unknown_pair = r1->qtype != r2->qtype && (unsigned)r1->qtype >= 65280 && (unsigned)r2->qtype >= 65280;
#ifdef KFONLY_qcache_key_unknown_type
  VP_ASSUME(unknown_pair);
#endif

  k1 = ares_qcache_calc_key(r1->h);
  k2 = ares_qcache_calc_key(r2->h);
  VP_ASSERT(k1 != NULL && k2 != NULL, "a key is produced for every valid request");
  eq = ares_strcaseeq(k1, k2) ? 1 : 0;

  same_attr = r1->opcode == r2->opcode && (r1->flags & ARES_FLAG_RD) == (r2->flags & ARES_FLAG_RD) &&
              (r1->flags & ARES_FLAG_CD) == (r2->flags & ARES_FLAG_CD) && r1->qclass == r2->qclass && same_name();
  same_type = r1->qtype == r2->qtype;

  if (eq) {
    VP_ASSERT(r1->opcode == r2->opcode, "equal keys imply the same opcode");
    VP_ASSERT((r1->flags & ARES_FLAG_RD) == (r2->flags & ARES_FLAG_RD), "equal keys imply the same RD flag");
    VP_ASSERT((r1->flags & ARES_FLAG_CD) == (r2->flags & ARES_FLAG_CD), "equal keys imply the same CD flag");
    VP_ASSERT(r1->qclass == r2->qclass, "equal keys imply the same class");
    VP_ASSERT(same_name(), "equal keys imply the same name (case-insensitively, up to one trailing dot)");
    if (unknown_pair) {
      VP_ASSERT(!CHECK_unknown_type,
                "FINDING qcache_key_unknown_type: equal keys imply the same question type (two different types without "
                "mnemonic, e.g. 65280 and 65281, are both spelled UNKNOWN)");
      VP_WITNESS("two unknown types collide");
    } else {
      VP_ASSERT(same_type, "equal keys imply the same question type");
    }
    VP_WITNESS("equal keys");
  } else {
    VP_ASSERT(!(same_attr && same_type), "requests with the same opcode, RD, CD, type, class and name share a key whatever their other flags");
    VP_WITNESS("different keys");
  }
  if (same_attr && same_type && r1->flags != r2->flags)
    VP_WITNESS("same key despite other flags");
  ares_free(k1);
  ares_free(k2);
  vp_free(r1->h);
  vp_free(r2->h);
}

void harness(void)
{
  int i, k;
  vp_alloc_install();
#if VARY == 4
  (void)i; (void)k;
  check_pair(0, 0);
#else
  /* every unordered pair of values of the varying attribute, each with concrete key lengths */
#  if VARY == 1
  {
    static const unsigned short rdcd[4] = { 0, 0x0100, 0x0010, 0x0110 };
    int                         b;
#    ifdef FI
    for (i = FI; i <= FI; i++) { /* -DFI=i: only the RD/CD combination number i for the first request */
#    else
    for (i = 0; i < 4; i++) {
#    endif
      for (k = i; k < 4; k++)
        check_pair(rdcd[i], rdcd[k] | 0xFEEF); /* RD/CD pair; all 14 other bits clear in one, set in the other */
      for (b = 0; b < 16; b++)
        if (b != 8 && b != 4)
          check_pair(rdcd[i], rdcd[i] | (1 << b)); /* each other bit on its own is immaterial */
    }
  }
#  else
  for (i = 0; i < NVAL; i++)
    for (k = i; k < NVAL; k++)
      check_pair(i, k);
#  endif
#endif
  VP_WITNESS("end");
}
#endif
