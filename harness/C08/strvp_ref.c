/* Reference implementation of the ares_htable_strvp contract used by ares_qcache.c:
 * association list, keys are private copies compared CASE-INSENSITIVELY (ASCII), insert
 * replaces the value of an equal key (calling val_free on the old one when set), remove
 * deletes.  Singly linked list of allocated nodes, at most VP_STRVP_CAP keys (a BOUND trips beyond).  The last keys
 * handed to insert/get/remove are recorded for the harness. */
#include "ares_private.h"
#include "ares_htable_strvp.h"
#include "vp.h"
#ifndef VP_STRVP_CAP
#  define VP_STRVP_CAP 3
#endif
#define VP_STRVP_KEYMAX 64
typedef struct vp_strvp_node {
  char                 *key;
  void                 *val;
  struct vp_strvp_node *next;
} vp_strvp_node_t;
/* singly linked list of individually allocated nodes (no symbolically indexed arrays) */
struct ares_htable_strvp {
  ares_htable_strvp_val_free_t free_val;
  vp_strvp_node_t             *head;
  size_t                       cnt;
};
char vp_strvp_ins_key[VP_STRVP_KEYMAX];
char vp_strvp_get_key[VP_STRVP_KEYMAX];
int  vp_strvp_ins_calls, vp_strvp_get_calls, vp_strvp_rem_calls;

static size_t ref_len(const char *s)
{
  size_t n = 0;
  while (s[n] != 0)
    n++;
  return n;
}
static int ref_lower(int c) { return (c >= 'A' && c <= 'Z') ? c + ('a' - 'A') : c; }
int vp_strvp_key_eq(const char *a, const char *b)
{
  size_t i;
  for (i = 0;; i++) {
    if (ref_lower((unsigned char)a[i]) != ref_lower((unsigned char)b[i]))
      return 0;
    if (a[i] == 0)
      return 1;
  }
}
static void record(char *dst, const char *key)
{
  size_t i, n = ref_len(key);
  VP_BOUND(n < VP_STRVP_KEYMAX, "strvp_ref key recorder too small");
  for (i = 0; i <= n && i < VP_STRVP_KEYMAX; i++)
    dst[i] = key[i];
}
ares_htable_strvp_t *ares_htable_strvp_create(ares_htable_strvp_val_free_t val_free)
{
  ares_htable_strvp_t *h = vp_malloc(sizeof(*h));
  if (h == NULL)
    return NULL;
  h->free_val = val_free;
  h->head     = NULL;
  h->cnt      = 0;
  return h;
}
static vp_strvp_node_t *find(const ares_htable_strvp_t *h, const char *key)
{
  vp_strvp_node_t *n;
  for (n = h->head; n != NULL; n = n->next)
    if (vp_strvp_key_eq(n->key, key))
      return n;
  return NULL;
}
static void unlink_node(ares_htable_strvp_t *h, vp_strvp_node_t *d)
{
  vp_strvp_node_t **pp;
  for (pp = &h->head; *pp != NULL; pp = &(*pp)->next)
    if (*pp == d) {
      *pp = d->next;
      break;
    }
  if (h->free_val != NULL)
    h->free_val(d->val);
  vp_free(d->key);
  vp_free(d);
  h->cnt--;
}
void ares_htable_strvp_destroy(ares_htable_strvp_t *h)
{
  if (h == NULL)
    return;
  while (h->head != NULL)
    unlink_node(h, h->head);
  vp_free(h);
}
ares_bool_t ares_htable_strvp_insert(ares_htable_strvp_t *h, const char *key, void *val)
{
  vp_strvp_node_t *n;
  size_t           j, len;
  if (h == NULL || key == NULL)
    return ARES_FALSE;
  vp_strvp_ins_calls++;
  record(vp_strvp_ins_key, key);
  n = find(h, key);
  if (n != NULL) {
    if (h->free_val != NULL)
      h->free_val(n->val);
    n->val = val;
    return ARES_TRUE;
  }
  VP_BOUND(h->cnt < VP_STRVP_CAP, "strvp_ref capacity exceeded");
  n   = vp_malloc(sizeof(*n));
  len = ref_len(key);
  if (n == NULL)
    return ARES_FALSE;
  n->key = vp_malloc(len + 1);
  for (j = 0; j <= len; j++)
    n->key[j] = key[j];
  n->val  = val;
  n->next = h->head;
  h->head = n;
  h->cnt++;
  return ARES_TRUE;
}
ares_bool_t ares_htable_strvp_get(const ares_htable_strvp_t *h, const char *key, void **val)
{
  vp_strvp_node_t *n;
  if (val != NULL)
    *val = NULL;
  if (h == NULL || key == NULL)
    return ARES_FALSE;
  vp_strvp_get_calls++;
  record(vp_strvp_get_key, key);
  n = find(h, key);
  if (n == NULL)
    return ARES_FALSE;
  if (val != NULL)
    *val = n->val;
  return ARES_TRUE;
}
void *ares_htable_strvp_get_direct(const ares_htable_strvp_t *h, const char *key)
{
  void *v = NULL;
  ares_htable_strvp_get(h, key, &v);
  return v;
}
ares_bool_t ares_htable_strvp_remove(ares_htable_strvp_t *h, const char *key)
{
  vp_strvp_node_t *n;
  if (h == NULL || key == NULL)
    return ARES_FALSE;
  vp_strvp_rem_calls++;
  n = find(h, key);
  if (n == NULL)
    return ARES_FALSE;
  unlink_node(h, n);
  return ARES_TRUE;
}
size_t ares_htable_strvp_num_keys(const ares_htable_strvp_t *h) { return h ? h->cnt : 0; }
/* harness-side lookup that does not disturb the recorders */
void *vp_strvp_peek(const ares_htable_strvp_t *h, const char *key)
{
  vp_strvp_node_t *n = find(h, key);
  return n ? n->val : NULL;
}
