/* Reference implementation of the ares_htable_strvp contract used by ares_qcache.c:
 * association list, keys are private copies compared CASE-INSENSITIVELY (ASCII), insert
 * replaces the value of an equal key (calling val_free on the old one when set), remove
 * deletes.  Capacity VP_STRVP_CAP (a BOUND trips when a harness needs more).  The last keys
 * handed to insert/get/remove are recorded for the harness. */
#include "ares_private.h"
#include "ares_htable_strvp.h"
#include "vp.h"
#ifndef VP_STRVP_CAP
#  define VP_STRVP_CAP 3
#endif
#define VP_STRVP_KEYMAX 64
struct ares_htable_strvp {
  ares_htable_strvp_val_free_t free_val;
  char                        *key[VP_STRVP_CAP];
  void                        *val[VP_STRVP_CAP];
  int                          used[VP_STRVP_CAP];
};
char vp_strvp_ins_key[VP_STRVP_KEYMAX];
char vp_strvp_get_key[VP_STRVP_KEYMAX];
int  vp_strvp_ins_calls, vp_strvp_get_calls, vp_strvp_rem_calls;

static size_t ref_len(const char *s)
{
  size_t n = 0;
  while (s[n] != 0)
    n++;
  return n;
}
static int ref_lower(int c) { return (c >= 'A' && c <= 'Z') ? c + ('a' - 'A') : c; }
int vp_strvp_key_eq(const char *a, const char *b)
{
  size_t i;
  for (i = 0;; i++) {
    if (ref_lower((unsigned char)a[i]) != ref_lower((unsigned char)b[i]))
      return 0;
    if (a[i] == 0)
      return 1;
  }
}
static void record(char *dst, const char *key)
{
  size_t i, n = ref_len(key);
  VP_BOUND(n < VP_STRVP_KEYMAX, "strvp_ref key recorder too small");
  for (i = 0; i <= n && i < VP_STRVP_KEYMAX; i++)
    dst[i] = key[i];
}
ares_htable_strvp_t *ares_htable_strvp_create(ares_htable_strvp_val_free_t val_free)
{
  ares_htable_strvp_t *h = vp_malloc(sizeof(*h));
  size_t               i;
  if (h == NULL)
    return NULL;
  h->free_val = val_free;
  for (i = 0; i < VP_STRVP_CAP; i++) {
    h->used[i] = 0;
    h->key[i]  = NULL;
    h->val[i]  = NULL;
  }
  return h;
}
static void slot_clear(ares_htable_strvp_t *h, size_t i, int free_val)
{
  if (free_val && h->free_val != NULL)
    h->free_val(h->val[i]);
  vp_free(h->key[i]);
  h->key[i]  = NULL;
  h->val[i]  = NULL;
  h->used[i] = 0;
}
void ares_htable_strvp_destroy(ares_htable_strvp_t *h)
{
  size_t i;
  if (h == NULL)
    return;
  for (i = 0; i < VP_STRVP_CAP; i++)
    if (h->used[i])
      slot_clear(h, i, 1);
  vp_free(h);
}
ares_bool_t ares_htable_strvp_insert(ares_htable_strvp_t *h, const char *key, void *val)
{
  size_t i, j, n;
  char  *k;
  if (h == NULL || key == NULL)
    return ARES_FALSE;
  vp_strvp_ins_calls++;
  record(vp_strvp_ins_key, key);
  for (i = 0; i < VP_STRVP_CAP; i++) {
    if (h->used[i] && vp_strvp_key_eq(h->key[i], key)) {
      if (h->free_val != NULL)
        h->free_val(h->val[i]);
      h->val[i] = val;
      return ARES_TRUE;
    }
  }
  for (i = 0; i < VP_STRVP_CAP; i++) {
    if (!h->used[i]) {
      n = ref_len(key);
      k = vp_malloc(n + 1);
      if (k == NULL)
        return ARES_FALSE;
      for (j = 0; j <= n; j++)
        k[j] = key[j];
      h->used[i] = 1;
      h->key[i]  = k;
      h->val[i]  = val;
      return ARES_TRUE;
    }
  }
  VP_BOUND(0, "strvp_ref capacity exceeded");
  return ARES_FALSE;
}
ares_bool_t ares_htable_strvp_get(const ares_htable_strvp_t *h, const char *key, void **val)
{
  size_t i;
  if (val != NULL)
    *val = NULL;
  if (h == NULL || key == NULL)
    return ARES_FALSE;
  vp_strvp_get_calls++;
  record(vp_strvp_get_key, key);
  for (i = 0; i < VP_STRVP_CAP; i++) {
    if (h->used[i] && vp_strvp_key_eq(h->key[i], key)) {
      if (val != NULL)
        *val = h->val[i];
      return ARES_TRUE;
    }
  }
  return ARES_FALSE;
}
void *ares_htable_strvp_get_direct(const ares_htable_strvp_t *h, const char *key)
{
  void *v = NULL;
  ares_htable_strvp_get(h, key, &v);
  return v;
}
ares_bool_t ares_htable_strvp_remove(ares_htable_strvp_t *h, const char *key)
{
  size_t i;
  if (h == NULL || key == NULL)
    return ARES_FALSE;
  vp_strvp_rem_calls++;
  for (i = 0; i < VP_STRVP_CAP; i++) {
    if (h->used[i] && vp_strvp_key_eq(h->key[i], key)) {
      slot_clear(h, i, 1);
      return ARES_TRUE;
    }
  }
  return ARES_FALSE;
}
size_t ares_htable_strvp_num_keys(const ares_htable_strvp_t *h)
{
  size_t i, n = 0;
  if (h == NULL)
    return 0;
  for (i = 0; i < VP_STRVP_CAP; i++)
    n += h->used[i] ? 1 : 0;
  return n;
}
/* harness-side lookup that does not disturb the recorders */
void *vp_strvp_peek(const ares_htable_strvp_t *h, const char *key)
{
  size_t i;
  for (i = 0; i < VP_STRVP_CAP; i++)
    if (h->used[i] && vp_strvp_key_eq(h->key[i], key))
      return h->val[i];
  return NULL;
}
