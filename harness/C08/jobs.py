import os

OUTSIDE = ("whole-library histories (each kernel job is ONE insert(+one later fetch) / ONE fetch / ONE flush from an arbitrary valid "
           "cache state with the stated number of entries); more than 3 RRs per response in the TTL kernels; names longer than the "
           "stated lengths in the key kernel; TTL accessors other than ares_dns_rr_get_ttl()/ares_dns_write() (ai_ttl, addrttls); "
           "hash-table/skip-list internals (reference containers here, real ones checked in C19)")
ASSUMPTIONS = ["abstract record interface (c08_abs.h): rcode/flags/opcode/one question/<=3 RRs with arbitrary section, type, TTL and SOA "
               "MINIMUM; ares_dns_record_ttl_decrement and ares_dns_record_destroy are recorders",
               "slist_ref.c / strvp_ref.c are reference implementations of the skip-list and case-insensitive string-key table "
               "contracts", "clock values within [0, 2^41] seconds; the clock is monotonic (no entry was inserted after `now`)",
               "cache state invariant: every entry is on the expiry list with 0 < expire-insert <= max_ttl; the key table maps a key "
               "to one of the listed entries of that key or to nothing", "allocations never fail"]
EXTRA = os.environ.get("VP_C08_DEFS", "").split()  # experiments, e.g. VP_C08_DEFS="-DKF_qcache_soa_ttl"

LIB = ["src/lib/ares_library_init.c"]
KEYREAL = LIB + ["src/lib/str/ares_buf.c", "src/lib/str/ares_str.c", "src/lib/record/ares_dns_mapping.c"]
KSUP = ["vp_rt.c", "valloc.c", "memloops.c", "slist_ref.c", "strvp_ref.c"]


KIND = ["request's key", "request's key in another case spelling", "another key"]


def jobs(tier, seed):
    J = []
    W_INS = ["end", "noerror cached", "nxdomain cached", "noerror with soa cached", "refused rcode/tc", "refused max_ttl 0",
             "refused ttl 0", "replayed", "expired, not replayed"]
    for old in (None, 0, 1, 2):
        J.append(dict(name="c08_insert_%s" % ("empty" if old is None else "old%d" % old), harness="qcache_step.c",
                      defines=["-DOP=0"] + ([] if old is None else ["-DOLD=%d" % old]), real=KEYREAL, support=KSUP, unwind=24,
                      kf_group="c08_insert", witnesses=W_INS + (["older entry replayed"] if old in (0, 1) else []),
                      bound="fresh cache (any max_ttl) %s; response with any rcode 0..23, any 16 flag bits, 0..3 RRs each with any "
                            "section/type/TTL/SOA MINIMUM; any now in 0..2^40 s; ONE ares_qcache_insert, then ONE ares_qcache_fetch of "
                            "the same request at any later time" %
                            ("without entries" if old is None else "holding one older entry (%s, any times, indexed or not)" % KIND[old])))
    shapes = [()] + [(a,) for a in (0, 1, 2)] + [(0, 0), (0, 1), (0, 2), (2, 0), (2, 2)]
    if tier != "quick":
        shapes += [(1, 0), (1, 1), (1, 2), (2, 1), (0, 1, 2), (0, 0, 2), (2, 0, 0), (0, 0, 0)]
    for sh in shapes:
        ne = len(sh)
        tag = "ne%d%s" % (ne, "_k" + "".join(str(k) for k in sh) if ne else "")
        kd = ["-DK%d=%d" % (i, k) for i, k in enumerate(sh)]
        desc = "%d entries (%s; any max_ttl, any insert/expire times with 0 < life <= max_ttl, each indexed or shadowed)" % (
            ne, ", ".join(KIND[k] for k in sh) if ne else "empty")
        J.append(dict(name="c08_fetch_" + tag, harness="qcache_step.c", defines=["-DOP=1", "-DNE=%d" % ne] + kd, real=KEYREAL,
                      support=KSUP, unwind=24,
                      witnesses=["end", "miss"] + (["expired entry discarded"] if ne else []) + (["hit"] if any(k != 2 for k in sh) else []),
                      bound="arbitrary valid cache state with " + desc + ", any now >= insert times; ONE ares_qcache_fetch, then "
                            "ares_qcache_destroy"))
        J.append(dict(name="c08_flush_" + tag, harness="qcache_step.c", defines=["-DOP=2", "-DNE=%d" % ne] + kd, real=KEYREAL,
                      support=KSUP, unwind=24, witnesses=["end"] + (["flushed entries"] if ne else []),
                      bound="arbitrary valid cache state with " + desc + "; ONE ares_qcache_flush, then a fetch"))
    for j in J:
        j["defines"] = j.get("defines", []) + EXTRA
    return J
