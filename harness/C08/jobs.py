import os

OUTSIDE = ("whole-library histories (each kernel job is ONE insert(+one later fetch) / ONE fetch / ONE flush from an arbitrary valid "
           "cache state with the stated number of entries); more than 3 RRs per response in the TTL kernels; names longer than the "
           "stated lengths in the key kernel; TTL accessors other than ares_dns_rr_get_ttl()/ares_dns_write() (ai_ttl, addrttls); "
           "hash-table/skip-list internals (reference containers here, real ones checked in C19)")
ASSUMPTIONS = ["abstract record interface (c08_abs.h): rcode/flags/opcode/one question/<=3 RRs with arbitrary section, type, TTL and SOA "
               "MINIMUM; ares_dns_record_ttl_decrement and ares_dns_record_destroy are recorders",
               "slist_ref.c / strvp_ref.c are reference implementations of the skip-list and case-insensitive string-key table "
               "contracts", "clock values within [0, 2^41] seconds; the clock is monotonic (no entry was inserted after `now`)",
               "cache state invariant: every entry is on the expiry list with 0 < expire-insert <= max_ttl; the key table maps a key "
               "to one of the listed entries of that key or to nothing", "allocations never fail"]
EXTRA = os.environ.get("VP_C08_DEFS", "").split()  # experiments, e.g. VP_C08_DEFS="-DKF_qcache_soa_ttl"

LIB = ["src/lib/ares_library_init.c"]
KEYREAL = LIB + ["src/lib/str/ares_buf.c", "src/lib/str/ares_str.c", "src/lib/record/ares_dns_mapping.c", "src/lib/util/ares_math.c"]
KSUP = ["vp_rt.c", "valloc.c", "memloops.c", "slist_ref.c", "strvp_ref.c"]


KIND = ["request's key", "request's key in another case spelling", "another key"]


def uws(ne):
    """loop bounds derived from the entry count (ne live entries + 1) and the longest key (17 chars + NUL)"""
    n = ne + 2
    return ["ares_qcache_expire.0:%d" % n, "vp_strvp_key_eq.0:19", "unlink_node.0:%d" % n, "find.0:%d" % n,
            "ares_htable_strvp_destroy.0:%d" % n, "ares_slist_destroy.0:%d" % n, "slist_link.0:%d" % n,
            # <= 3 RRs per response (C08_MAXRR): section loops see at most 3 records
            "ares_qcache_calc_minttl.0:5", "ares_qcache_calc_minttl.1:5", "ares_qcache_soa_minimum.0:5"]


def jobs(tier, seed):
    J = []
    # NOERROR jobs fix the section of each of the 3 RR slots (symbolic sections make the minimum over three scans a hard SAT
    # instance: 90-240 s); NXDOMAIN / other rcodes keep the sections symbolic.
    ALLSECTS = [100 * a + 10 * b + c for a in (1, 2, 3) for b in (1, 2, 3) for c in (1, 2, 3)]
    RC = [(0, "noerror", "rcode NOERROR"), (3, "nxdomain", "rcode NXDOMAIN"), (-1, "otherrc", "any rcode other than NOERROR/NXDOMAIN")]
    for old in (None, 0, 1, 2):
        for rc, rcname, rcdesc in RC:
            if old is not None and tier == "quick" and rc < 0:
                continue
            if rc == 0:
                sects = ALLSECTS if tier != "quick" else ((123, 111, 221, 312) if old is None else (123, 212))
            else:
                sects = (None,)
            for sc in sects:
                wit = ["end"]
                if rc == 0:
                    wit += ["noerror cached", "noerror with soa cached", "refused rcode/tc", "refused ttl 0", "replayed", "expired, not replayed"]
                elif rc == 3:
                    wit += ["nxdomain cached", "refused rcode/tc", "refused ttl 0", "replayed", "expired, not replayed"]
                else:
                    wit += ["refused rcode/tc"]
                if old in (0, 1):
                    wit.append("older entry replayed")
                if old is None and rc >= 0:
                    wit.append("refused max_ttl 0")
                J.append(dict(name="c08_insert_%s_%s%s" % ("empty" if old is None else "old%d" % old, rcname, "" if sc is None else "_s%d" % sc),
                              harness="qcache_step.c",
                              defines=["-DOP=0", "-DRCODE=%d" % rc] + ([] if old is None else ["-DOLD=%d" % old]) +
                                      ([] if sc is None else ["-DSECTS=%d" % sc]),
                              real=KEYREAL, support=KSUP, unwind=24, unwindset=uws(2), kf_group="c08_insert", witnesses=wit,
                              bound="fresh cache (any max_ttl) %s; response with %s, any 16 flag bits, 0..3 RRs each with any type/TTL/SOA "
                                    "MINIMUM and %s; any now in 0..2^40 s; ONE ares_qcache_insert, then ONE ares_qcache_fetch of the same "
                                    "request at any later time" %
                                    ("without entries" if old is None else "holding one older entry (%s, any times, indexed or not)" % KIND[old],
                                     rcdesc, "any section" if sc is None else "sections %s (1 answer, 2 authority, 3 additional)" % sc)))
    shapes = [()] + [(a,) for a in (0, 1, 2)] + [(0, 0), (0, 1), (0, 2), (2, 0), (2, 2)]
    if tier != "quick":
        shapes += [(1, 0), (1, 1), (1, 2), (2, 1), (0, 1, 2), (0, 0, 2), (2, 0, 0), (0, 0, 0)]
    for sh in shapes:
        ne = len(sh)
        tag = "ne%d%s" % (ne, "_k" + "".join(str(k) for k in sh) if ne else "")
        kd = ["-DK%d=%d" % (i, k) for i, k in enumerate(sh)]
        desc = "%d entries (%s; any max_ttl, any insert/expire times with 0 < life <= max_ttl, each indexed or shadowed)" % (
            ne, ", ".join(KIND[k] for k in sh) if ne else "empty")
        J.append(dict(name="c08_fetch_" + tag, harness="qcache_step.c", defines=["-DOP=1", "-DNE=%d" % ne] + kd, real=KEYREAL,
                      support=KSUP, unwind=24, unwindset=uws(ne),
                      witnesses=["end", "miss"] + (["expired entry discarded"] if ne else []) + (["hit"] if any(k != 2 for k in sh) else []),
                      bound="arbitrary valid cache state with " + desc + ", any now >= insert times; ONE ares_qcache_fetch, then "
                            "ares_qcache_destroy"))
        J.append(dict(name="c08_flush_" + tag, harness="qcache_step.c", defines=["-DOP=2", "-DNE=%d" % ne] + kd, real=KEYREAL,
                      support=KSUP, unwind=24, unwindset=uws(ne),
                      witnesses=["end"] + (["flushed entries"] if ne else []),
                      bound="arbitrary valid cache state with " + desc + "; ONE ares_qcache_flush, then a fetch"))
    # (b) key kernel: one attribute varies (symbolic in both requests) around two concrete baselines; field lemma
    KSZ = "-DVP_SIZES=32,48,56,64,128"  # ares_buf_t 48, record handle 56, key buffer 32 (64/128 infeasible)
    KUW = ["ares_buf_ensure_space.0:3", "strcasecmp.0:32", "vp_realloc.0:34"]
    VARY = ["opcode (5 valid opcodes)", "RD/CD combination (4)", "qtype over {A,NS,AAAA,ANY,65280,65281}", "class (5 valid classes)"]
    BASES = ["QUERY rd A IN", "UPDATE cd 65280 ANY"]
    for v in range(4):
        for base in (0, 1):
            for fi in (range(4) if v == 1 else (None,)):
                if v == 1 and tier == "quick" and base == 1 and fi != 2:
                    continue
                wit = ["end", "equal keys"] + (["different keys"] if fi != 3 else []) + \
                      (["same key despite other flags"] if v == 1 else [])
                J.append(dict(name="c08_key_b%d_%s%s" % (base, ["opcode", "flags", "type", "class"][v], "" if fi is None else "_%d" % fi),
                              harness="qcache_key.c", defines=["-DVARY=%d" % v, "-DBASE=%d" % base] + ([] if fi is None else ["-DFI=%d" % fi]),
                              real=KEYREAL, support=["vp_rt.c", "valloc.c", "memloops.c"], unwind=34, kf_group="c08_key", witnesses=wit,
                              bound="two one-question requests equal to the baseline (%s, names aB. / Ab) except the %s: every unordered "
                                    "pair of values%s; real ares_qcache_calc_key on both, keys compared with the real ares_strcaseeq" %
                                    (BASES[base], VARY[v], "" if fi is None else " whose first RD/CD combination is #%d (other 14 header "
                                     "bits all-clear vs all-set, and each toggled on its own)" % fi)))
    kshapes = [(0, 0, 0, 1), (1, 0, 1, 1), (2, 0, 2, 0), (2, 1, 2, 0), (1, 0, 2, 0), (3, 0, 3, 0), (2, 0, 3, 1)]
    if tier != "quick":
        kshapes = [(a, d1, b, d2) for a in range(4) for b in range(a, 4) for d1 in (0, 1) for d2 in (0, 1)]
    for (l1, d1, l2, d2) in kshapes:
        J.append(dict(name="c08_key_name_l%d%s_l%d%s" % (l1, "d" if d1 else "", l2, "d" if d2 else ""), harness="qcache_key.c",
                      defines=["-DVARY=4", "-DBASE=0", "-DL1=%d" % l1, "-DDOT1=%d" % d1, "-DL2=%d" % l2, "-DDOT2=%d" % d2, KSZ],
                      real=KEYREAL, support=["vp_rt.c", "valloc.c", "memloops.c"], unwind=9, unwindset=KUW, kf_group="c08_key",
                      witnesses=["end"] + (["equal keys"] if l1 == l2 else []) + (["different keys"] if l1 != l2 or l1 > 0 else []),
                      bound="two one-question requests QUERY rd A IN with names of %d and %d symbolic characters over {a,A,b,B,-}%s%s; "
                            "real ares_qcache_calc_key on both, keys compared with the real ares_strcaseeq" %
                            (l1, l2, ", first with trailing dot" if d1 else "", ", second with trailing dot" if d2 else "")))
    J.append(dict(name="c08_key_fields", harness="qcache_key.c", defines=["-DVARY=5"], real=KEYREAL,
                  support=["vp_rt.c", "valloc.c", "memloops.c"], unwind=9,
                  bound="field lemma: for every 16-bit qtype pair, valid class pair and valid opcode pair the real mnemonic functions "
                        "return non-empty '|'-free strings, different for different values (except types spelled UNKNOWN)"))
    # (c) TTL views with the REAL record code
    RECREAL = LIB + ["src/lib/record/ares_dns_record.c", "src/lib/record/ares_dns_write.c", "src/lib/record/ares_dns_name.c",
                     "src/lib/record/ares_dns_mapping.c", "src/lib/record/ares_dns_multistring.c", "src/lib/str/ares_buf.c",
                     "src/lib/str/ares_str.c", "src/lib/dsa/ares_array.c", "src/lib/dsa/ares_llist.c", "src/lib/util/ares_math.c"]
    J.append(dict(name="c08_ttl", harness="ttl_view.c", real=RECREAL, support=["vp_rt.c", "valloc.c", "memloops.c"], unwind=20,
                  unwindset=["vp_realloc.0:260"], leak=True, kf_group="c08_ttl", witnesses=["end", "floored at zero", "reduced"],
                  bound="response with question a.b A IN and one A answer built through the public record API, any id/TTL/address, any "
                        "ttl_decrement; ares_dns_rr_get_ttl() and the TTL bytes of ares_dns_write()"))
    J.append(dict(name="c08_ttl_ai", harness="ttl_view.c", defines=["-DWITH_AI"],
                  real=RECREAL + ["src/lib/ares_parse_into_addrinfo.c", "src/lib/ares_getaddrinfo.c", "src/lib/ares_addrinfo_localhost.c", "src/lib/ares_freeaddrinfo.c"],
                  support=["vp_rt.c", "valloc.c", "memloops.c"], unwind=20, unwindset=["vp_realloc.0:260"], leak=True,
                  kf_group="c08_ttl", witnesses=["end", "floored at zero", "reduced", "addrinfo node"],
                  bound="as c08_ttl, plus ai_ttl of ares_parse_into_addrinfo() (what ares_getaddrinfo reports)"))
    # (d) server-list change => flush
    for ns, nc in ((0, 1), (1, 1), (1, 2), (2, 1), (2, 2), (1, 0)) + (((2, 3), (3, 2)) if tier != "quick" else ()):
        wit = ["end"] + (["set changed, flushed"] if (ns, nc) != (0, 0) else []) + (["list unchanged"] if ns >= 1 and nc >= ns else []) + \
              (["order changed only"] if ns >= 2 and nc >= ns else [])
        J.append(dict(name="c08_srvflush_ns%d_nc%d" % (ns, nc), harness="servers_flush.c", defines=["-DNS=%d" % ns, "-DNC=%d" % nc],
                      real=LIB + ["src/lib/dsa/ares_llist.c", "src/lib/str/ares_str.c"],
                      support=["vp_rt.c", "valloc.c", "memloops.c", "slist_ref.c"], unwind=max(ns, nc) + 3, kf_group="c08_srvflush",
                      unwindset=["ares_strlen.0:2", "strlen.0:2", "memcmp.0:6", "memcpy.0:17"], witnesses=wit,
                      bound="%d existing servers (IPv4, last byte 1..3, ports 53|54, no failures) and a new configuration of %d "
                            "entries (last byte 1..3, ports default|53|54), PRIMARY flag or not; ONE ares_servers_update" % (ns, nc)))
    J.append(dict(name="c08_reinit_flush", harness="reinit_flush.c", real=[], support=["vp_rt.c", "lock_ghost.c"], unwind=4,
                  witnesses=["end", "skipped", "reinit flushed", "sysconfig failed", "thread create failed"],
                  bound="channel up/down, reinit pending or not, threads available or not, thread start succeeds or fails, system "
                        "configuration read returns any status; ONE ares_reinit with the thread body run synchronously"))
    for j in J:
        j["defines"] = j.get("defines", []) + EXTRA
    return J
