/* C08 / "every TTL visible through any API is reduced by the time spent cached".
 * REAL record code: a response (question + one A answer) is built through the public record API
 * with a symbolic TTL, the cache's ares_dns_record_ttl_decrement(rec, d) is applied with a symbolic
 * d, and every TTL accessor must report max(ttl - d, 0):
 *   - ares_dns_rr_get_ttl()                      (record API; also what ares_parse_into_addrinfo reads)
 *   - the TTL bytes produced by ares_dns_write()  (legacy callbacks get this buffer)
 *   - ai_ttl of ares_parse_into_addrinfo()        (-DWITH_AI: ares_getaddrinfo results)
 * Real: record/ares_dns_record.c, ares_dns_write.c, ares_dns_name.c, ares_dns_mapping.c,
 * ares_dns_multistring.c, str/ares_buf.c, str/ares_str.c, dsa/ares_array.c, dsa/ares_llist.c,
 * util/ares_math.c, ares_library_init.c (+ ares_parse_into_addrinfo.c, ares_addrinfo2.c,
 * ares_freeaddrinfo.c with -DWITH_AI).  Name concrete ("a.b"), id/ttl/d/address symbolic.
 * Suspected genuine defect, separately named (-DKF_rr_get_ttl_decrement switches those assertions off):
 *   rr_get_ttl_decrement   ares_dns_rr_get_ttl() ignores the record's ttl_decrement */
#include "vp.h"
#include "ares_private.h"

#ifdef KF_rr_get_ttl_decrement
#  define CHECK_get_ttl 0
#else
#  define CHECK_get_ttl 1
#endif

void harness(void)
{
  ares_dns_record_t *rec = NULL;
  ares_dns_rr_t     *rr  = NULL;
  struct in_addr     in;
  unsigned int       ttl = vp_u32(), d = vp_u32(), expect, wire;
  unsigned char     *buf = NULL;
  size_t             len = 0, off;
  ares_status_t      st;

  vp_alloc_install();
  in.s_addr = vp_u32();
#ifdef KFONLY_rr_get_ttl_decrement
  VP_ASSUME(d != 0 && ttl != 0);
#endif
  st = ares_dns_record_create(&rec, vp_u16(), ARES_FLAG_QR | ARES_FLAG_RD | ARES_FLAG_RA, ARES_OPCODE_QUERY, ARES_RCODE_NOERROR);
  VP_ASSUME(st == ARES_SUCCESS);
  st = ares_dns_record_query_add(rec, "a.b", ARES_REC_TYPE_A, ARES_CLASS_IN);
  VP_ASSERT(st == ARES_SUCCESS, "question added");
  st = ares_dns_record_rr_add(&rr, rec, ARES_SECTION_ANSWER, "a.b", ARES_REC_TYPE_A, ARES_CLASS_IN, ttl);
  VP_ASSERT(st == ARES_SUCCESS && rr != NULL, "answer added");
  st = ares_dns_rr_set_addr(rr, ARES_RR_A_ADDR, &in);
  VP_ASSERT(st == ARES_SUCCESS, "address set");

  VP_ASSERT(ares_dns_rr_get_ttl(rr) == ttl, "a record that never sat in the cache reports its TTL unchanged");

  /* what ares_qcache_fetch() does before handing the record out */
  ares_dns_record_ttl_decrement(rec, d);
  expect = ttl > d ? ttl - d : 0;

  VP_ASSERT(!CHECK_get_ttl || ares_dns_rr_get_ttl(ares_dns_record_rr_get_const(rec, ARES_SECTION_ANSWER, 0)) == expect,
            "FINDING rr_get_ttl_decrement: ares_dns_rr_get_ttl() reports the TTL reduced by the time spent cached (floored at 0)");

  st = ares_dns_write(rec, &buf, &len);
  VP_ASSERT(st == ARES_SUCCESS && buf != NULL, "cached record serialises");
  /* header 12, question: 1 a 1 b 0 + type + class = 9; answer name: compression pointer or labels */
  off = 12 + 9;
  VP_ASSERT(len > off, "message has an answer");
  if ((buf[off] & 0xC0) == 0xC0)
    off += 2;
  else
    off += 5;
  off += 4; /* type, class */
  VP_ASSERT(len >= off + 4 + 2 + 4, "answer RR complete");
  wire = ((unsigned int)buf[off] << 24) | ((unsigned int)buf[off + 1] << 16) | ((unsigned int)buf[off + 2] << 8) | buf[off + 3];
  VP_ASSERT(wire == expect, "the TTL written by ares_dns_write() is reduced by the time spent cached (floored at 0)");
  if (d > ttl)
    VP_WITNESS("floored at zero");
  if (d != 0 && d < ttl)
    VP_WITNESS("reduced");

#ifdef WITH_AI
  {
    struct ares_addrinfo ai;
    memset(&ai, 0, sizeof(ai));
    st = ares_parse_into_addrinfo(rec, ARES_FALSE, 0, &ai);
    VP_ASSERT(st == ARES_SUCCESS && ai.nodes != NULL, "addrinfo produced from the cached record");
    if (ai.nodes != NULL) {
      VP_ASSERT(!CHECK_get_ttl || (unsigned int)ai.nodes->ai_ttl == expect,
                "FINDING rr_get_ttl_decrement: ai_ttl of ares_getaddrinfo results is reduced by the time spent cached");
      VP_WITNESS("addrinfo node");
    }
    ares_freeaddrinfo_nodes(ai.nodes);
    ares_freeaddrinfo_cnames(ai.cnames);
    ares_free(ai.name);
  }
#endif
  ares_free(buf);
  ares_dns_record_destroy(rec);
  VP_WITNESS("end");
}
