/* Abstract DNS record interface for the C08 cache kernels: a record is a handle (a really
 * allocated ares_dns_record_t, so frees / double frees / use after free are visible) plus a
 * row in a table with the only attributes ares_qcache.c reads: rcode, flags, opcode, one
 * question (name/type/class) and <= C08_MAXRR resource records (section, type, TTL, SOA
 * MINIMUM).  ares_dns_record_ttl_decrement() and ares_dns_record_destroy() are recorders.
 * Include once, in the harness TU, after ares_qcache.c. */
#ifndef C08_ABS_H
#define C08_ABS_H
#define C08_MAXRR  3
#define C08_MAXREC 6
typedef struct {
  ares_dns_section_t  sect;
  ares_dns_rec_type_t type;
  unsigned int        ttl;
  unsigned int        soa_min;
} arr_t;
typedef struct {
  ares_dns_record_t  *h;
  ares_dns_rcode_t    rcode;
  unsigned short      flags;
  ares_dns_opcode_t   opcode;
  size_t              nrr;
  arr_t               rr[C08_MAXRR];
  size_t              nq;
  const char         *qname;
  ares_dns_rec_type_t qtype;
  ares_dns_class_t    qclass;
  size_t              idx; /* position in g_rec */
  int                 destroyed;
  int                 dec_calls;
  unsigned int        dec;
} arec_t;
/* separate objects (not an array of structs): a recorder write through a symbolic record pointer must not turn the
 * whole table into a symbolically indexed array (every later attribute read would become symbolic) */
static arec_t        g_rec0, g_rec1, g_rec2, g_rec3, g_rec4, g_rec5;
static arec_t *const g_rec[C08_MAXREC] = { &g_rec0, &g_rec1, &g_rec2, &g_rec3, &g_rec4, &g_rec5 };
static size_t        g_nrec;
static ares_dns_rr_t g_rrh[C08_MAXREC][C08_MAXRR]; /* RR handles */

static arec_t *arec_new(void)
{
  arec_t *r;
  VP_BOUND(g_nrec < C08_MAXREC, "abstract record table too small");
  r = g_rec[g_nrec++];
  memset(r, 0, sizeof(*r));
  r->idx = g_nrec - 1;
  r->h   = vp_malloc(sizeof(*r->h));
  memset(r->h, 0, sizeof(*r->h));
  return r;
}
static arec_t *arec_of(const ares_dns_record_t *h)
{
  size_t i;
  for (i = 0; i < C08_MAXREC; i++)
    if (i < g_nrec && g_rec[i]->h == h)
      return g_rec[i];
  VP_ASSERT(0, "record handle handed to the record API is a live record of this harness");
  return g_rec[0];
}
/* RR attributes are kept in the (real) ares_dns_rr_t handle itself, so the accessors need no table search;
 * call arec_commit() after filling r->rr[]/r->nrr */
static void arec_commit(arec_t *r)
{
  size_t k;
  for (k = 0; k < C08_MAXRR; k++) {
    ares_dns_rr_t *h = &g_rrh[r->idx][k];
    memset(h, 0, sizeof(*h));
    h->parent        = r->h;
    h->type          = r->rr[k].type;
    h->ttl           = r->rr[k].ttl;
    h->r.soa.minimum = r->rr[k].soa_min;
  }
}
size_t ares_dns_record_rr_cnt(const ares_dns_record_t *dnsrec, ares_dns_section_t sect)
{
  const arec_t *r = arec_of(dnsrec);
  size_t        k, n = 0;
  for (k = 0; k < C08_MAXRR; k++)
    if (k < r->nrr && r->rr[k].sect == sect)
      n++;
  return n;
}
ares_dns_rr_t *ares_dns_record_rr_get(ares_dns_record_t *dnsrec, ares_dns_section_t sect, size_t idx)
{
  const arec_t *r = arec_of(dnsrec);
  size_t        k, n = 0;
  for (k = 0; k < C08_MAXRR; k++)
    if (k < r->nrr && r->rr[k].sect == sect) {
      if (n == idx)
        return &g_rrh[r->idx][k];
      n++;
    }
  return NULL;
}
const ares_dns_rr_t *ares_dns_record_rr_get_const(const ares_dns_record_t *dnsrec, ares_dns_section_t sect, size_t idx)
{
  return ares_dns_record_rr_get((ares_dns_record_t *)(size_t)dnsrec, sect, idx);
}
ares_dns_rec_type_t ares_dns_rr_get_type(const ares_dns_rr_t *rr) { return rr ? rr->type : 0; }
unsigned int        ares_dns_rr_get_ttl(const ares_dns_rr_t *rr) { return rr ? rr->ttl : 0; }
unsigned int        ares_dns_rr_get_u32(const ares_dns_rr_t *rr, ares_dns_rr_key_t key)
{
  if (rr == NULL)
    return 0;
  VP_ASSERT(key == ARES_RR_SOA_MINIMUM && rr->type == ARES_REC_TYPE_SOA, "only SOA MINIMUM is read as u32");
  return rr->r.soa.minimum;
}
ares_dns_rcode_t  ares_dns_record_get_rcode(const ares_dns_record_t *r) { return r ? arec_of(r)->rcode : 0; }
unsigned short    ares_dns_record_get_flags(const ares_dns_record_t *r) { return r ? arec_of(r)->flags : 0; }
ares_dns_opcode_t ares_dns_record_get_opcode(const ares_dns_record_t *r) { return r ? arec_of(r)->opcode : 0; }
size_t            ares_dns_record_query_cnt(const ares_dns_record_t *r) { return r ? arec_of(r)->nq : 0; }
ares_status_t ares_dns_record_query_get(const ares_dns_record_t *dnsrec, size_t idx, const char **name,
                                        ares_dns_rec_type_t *qtype, ares_dns_class_t *qclass)
{
  const arec_t *r;
  if (dnsrec == NULL)
    return ARES_EFORMERR;
  r = arec_of(dnsrec);
  if (idx >= r->nq)
    return ARES_EFORMERR;
  if (name)
    *name = r->qname;
  if (qtype)
    *qtype = r->qtype;
  if (qclass)
    *qclass = r->qclass;
  return ARES_SUCCESS;
}
void ares_dns_record_ttl_decrement(ares_dns_record_t *dnsrec, unsigned int ttl_decrement)
{
  arec_t *r;
  if (dnsrec == NULL)
    return;
  r = arec_of(dnsrec);
  VP_ASSERT(!r->destroyed, "TTL decrement applied to a live record");
  r->dec_calls++;
  r->dec = ttl_decrement;
}
void ares_dns_record_destroy(ares_dns_record_t *dnsrec)
{
  arec_t *r;
  if (dnsrec == NULL)
    return;
  r = arec_of(dnsrec);
  VP_ASSERT(!r->destroyed, "record destroyed at most once");
  r->destroyed = 1;
  vp_free(r->h);
}
#endif
