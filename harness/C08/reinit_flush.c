/* C08 / "a reinit empties the cache": real ares_reinit() + ares_reinit_thread() (TU ares_init.c
 * included).  Stubs: ares_init_by_sysconfig (arbitrary status; the real one applies servers through
 * ares_servers_update, see servers_flush.c), ares_qcache_flush (recorder), channel lock
 * (harness/stubs/lock_ghost.c), ares_threadsafety (arbitrary), ares_thread_create (runs the thread
 * body synchronously or fails), ares_thread_join (no-op). */
#include "vp.h"
#include "ares_init.c"

extern int    vp_lock_depth;
static int    flush_calls, flush_locked, sysconfig_calls, body_ran;
static ares_status_t sys_status;

void ares_qcache_flush(ares_qcache_t *cache)
{
  VP_ASSERT(cache != NULL, "flush is given the channel's cache");
  flush_calls++;
  flush_locked = vp_lock_depth > 0;
}
ares_status_t ares_init_by_sysconfig(ares_channel_t *channel)
{
  (void)channel;
  sysconfig_calls++;
  return sys_status;
}
ares_bool_t ares_threadsafety(void) { return vp_bool() ? ARES_TRUE : ARES_FALSE; }
ares_status_t ares_thread_create(ares_thread_t **thread, ares_thread_func_t func, void *arg)
{
  static int dummy;
  if (vp_bool())
    return ARES_ENOMEM;
  *thread = (ares_thread_t *)&dummy;
  body_ran++;
  (void)func(arg); /* the new thread's whole run */
  return ARES_SUCCESS;
}
ares_status_t ares_thread_join(ares_thread_t *thread, void **rv)
{
  (void)thread;
  if (rv)
    *rv = NULL;
  return ARES_SUCCESS;
}

void harness(void)
{
  static ares_channel_t ch;
  static int            cache_obj;
  ares_status_t         st;
  int                   will_run;

  ch.sys_up         = vp_bool() ? ARES_TRUE : ARES_FALSE;
  ch.reinit_pending = vp_bool() ? ARES_TRUE : ARES_FALSE;
  ch.qcache         = (ares_qcache_t *)&cache_obj; /* the cache always exists (ares_init_options creates it even for max_ttl 0) */
  sys_status        = (ares_status_t)vp_range(0, 24);
  will_run          = ch.sys_up && !ch.reinit_pending;

  st = ares_reinit(&ch);

  if (!will_run) {
    VP_ASSERT(st == ARES_SUCCESS && sysconfig_calls == 0 && flush_calls == 0, "reinit is skipped while one is pending or the channel is down");
    VP_WITNESS("skipped");
  } else if (st == ARES_SUCCESS) {
    VP_ASSERT(sysconfig_calls == 1, "reinit re-reads the system configuration once");
    if (sys_status == ARES_SUCCESS) {
      VP_ASSERT(flush_calls == 1, "a successful reinit empties the cache");
      VP_ASSERT(flush_locked, "the cache is flushed under the channel lock");
      VP_WITNESS("reinit flushed");
    } else {
      VP_WITNESS("sysconfig failed");
    }
    VP_ASSERT(ch.reinit_pending == ARES_FALSE, "reinit is no longer pending afterwards");
  } else {
    VP_ASSERT(sysconfig_calls == 0 && ch.reinit_pending == ARES_FALSE, "a reinit whose thread could not start is not left pending");
    VP_WITNESS("thread create failed");
  }
  VP_ASSERT(vp_lock_depth == 0, "channel lock released");
  VP_WITNESS("end");
}
