/* C08 / "any server-list change empties the cache": real ares_servers_update() (and its statics
 * ares_server_find/isdup/create/in_newconfig/remove_stale/trim_single; TU ares_update_servers.c
 * included) on a channel with NS existing servers and a new configuration of NC entries.
 * Real: ares_update_servers.c, dsa/ares_llist.c (configuration list), str/ares_str.c,
 * ares_library_init.c.  Stubs: server list = harness/stubs/slist_ref.c, ares_qcache_flush =
 * recorder, ares_destroy_server = releases the server object (the real one also re-homes queries
 * and closes sockets: C01/C10).  Addresses are IPv4 with a symbolic last byte in 1..3, ports
 * symbolic over {0 = default, 53, 54}.
 * Separately named (-DKF_servers_reorder_noflush switches it off): a configuration that only
 * re-orders the same servers does not flush. */
#include "vp.h"
#include "ares_update_servers.c"

#ifndef NS
#  define NS 1
#endif
#ifndef NC
#  define NC 1
#endif
#ifdef KF_servers_reorder_noflush
#  define CHECK_reorder 0
#else
#  define CHECK_reorder 1
#endif

static int flush_calls;
void ares_qcache_flush(ares_qcache_t *cache)
{
  (void)cache;
  flush_calls++;
}
static int destroyed;
void ares_destroy_server(ares_server_t *server)
{
  if (server == NULL)
    return;
  destroyed++;
  /* the (empty) connection list is deliberately not torn down here: its destructor pointer would be read through a
   * symbolic server pointer and case-split recursively into this very callback */
  ares_free(server);
}
static void server_destroy_cb(void *arg) { ares_destroy_server(arg); }
/* as ares_init.c: failures first, then configuration index */
static int server_sort_cb(const void *a, const void *b)
{
  const ares_server_t *s1 = a, *s2 = b;
  if (s1->consec_failures < s2->consec_failures) return -1;
  if (s1->consec_failures > s2->consec_failures) return 1;
  if (s1->idx < s2->idx) return -1;
  if (s1->idx > s2->idx) return 1;
  return 0;
}

typedef struct { unsigned a; unsigned short udp, tcp; } key_t3;
static key_t3 before[NS > 0 ? NS : 1], after[4], want[4];
static size_t nbefore, nafter, nwant;
static int    user;
static unsigned int optmask0;

static unsigned short arb_port(int allow0)
{
  unsigned c = vp_u8();
  VP_ASSUME(c < 3);
  if (c == 0) return allow0 ? 0 : 53;
  return c == 1 ? 53 : 54;
}
static int in_set(const key_t3 *s, size_t n, const key_t3 *k)
{
  size_t i;
  for (i = 0; i < n; i++)
    if (s[i].a == k->a && s[i].udp == k->udp && s[i].tcp == k->tcp)
      return 1;
  return 0;
}

void harness(void)
{
  static ares_channel_t ch;
  ares_llist_t         *cfg;
  ares_slist_node_t    *n;
  ares_status_t         st;
  size_t                i;
  int                   set_changed = 0, order_changed = 0;

  vp_alloc_install();
  ch.servers  = ares_slist_create(NULL, server_sort_cb, server_destroy_cb);
  ch.udp_port = arb_port(1);
  ch.tcp_port = arb_port(1);
  ch.flags    = vp_bool() ? ARES_FLAG_PRIMARY : 0;
  cfg         = ares_llist_create(ares_free);
  VP_ASSUME(ch.servers != NULL && cfg != NULL);
  VP_ASSUME(!(ch.flags & ARES_FLAG_PRIMARY) || NS <= 1); /* PRIMARY keeps the list trimmed to one server */

  for (i = 0; i < NS; i++) {
    ares_server_t *s = ares_malloc_zero(sizeof(*s));
    VP_ASSUME(s != NULL);
    s->idx             = i;
    s->channel         = &ch;
    s->addr.family     = AF_INET;
    before[i].a        = (unsigned)vp_range(1, 3);
    before[i].udp      = arb_port(0);
    before[i].tcp      = arb_port(0);
    ((unsigned char *)&s->addr.addr.addr4)[3] = (unsigned char)before[i].a;
    s->udp_port        = before[i].udp;
    s->tcp_port        = before[i].tcp;
    s->consec_failures = 0; /* healthy servers: list order == configuration order (keeps the list structure concrete) */
    s->connections     = ares_llist_create(NULL);
    VP_ASSUME(s->connections != NULL);
    VP_ASSUME(!in_set(before, i, &before[i])); /* the server list holds no duplicates (isdup/find) */
    VP_ASSUME(ares_slist_insert(ch.servers, s) != NULL);
  }
  nbefore = NS;
  for (i = 0; i < NC; i++) {
    ares_sconfig_t *c = ares_malloc_zero(sizeof(*c));
    VP_ASSUME(c != NULL);
    c->addr.family = AF_INET;
    ((unsigned char *)&c->addr.addr.addr4)[3] = (unsigned char)vp_range(1, 3);
    c->udp_port = arb_port(1);
    c->tcp_port = arb_port(1);
    VP_ASSUME(ares_llist_insert_last(cfg, c) != NULL);
  }

#ifdef C16_LISTEQ
  /* C16: the configuration about to be applied, ports resolved, duplicates dropped, in order */
  {
    ares_llist_node_t *cn;
    for (cn = ares_llist_node_first(cfg); cn != NULL; cn = ares_llist_node_next(cn)) {
      const ares_sconfig_t *c = ares_llist_node_val(cn);
      key_t3                k;
      k.a   = ((const unsigned char *)&c->addr.addr.addr4)[3];
      k.udp = c->udp_port ? c->udp_port : (ch.udp_port ? ch.udp_port : 53);
      k.tcp = c->tcp_port ? c->tcp_port : (ch.tcp_port ? ch.tcp_port : 53);
      if (!in_set(want, nwant, &k)) want[nwant++] = k;
    }
    user = vp_bool();
    optmask0 = ch.optmask = vp_bool() ? ARES_OPT_SERVERS : 0;
  }
  st = ares_servers_update(&ch, cfg, user ? ARES_TRUE : ARES_FALSE);
#else
  st = ares_servers_update(&ch, cfg, vp_bool() ? ARES_TRUE : ARES_FALSE);
#endif
  VP_ASSERT(st == ARES_SUCCESS, "server update succeeds (no allocation failure)");

  for (n = ares_slist_node_first(ch.servers); n != NULL; n = ares_slist_node_next(n)) {
    const ares_server_t *s = ares_slist_node_val(n);
    VP_BOUND(nafter < 4, "more servers than the harness tracks");
    after[nafter].a   = ((const unsigned char *)&s->addr.addr.addr4)[3];
    after[nafter].udp = s->udp_port;
    after[nafter].tcp = s->tcp_port;
    nafter++;
  }
#ifdef C16_LISTEQ
  /* C16: applying a server list yields exactly that list - same servers (address and BOTH ports), same order, nothing
   * left over from the previous list - and an explicitly supplied list is remembered as the user's */
  if (!(ch.flags & ARES_FLAG_PRIMARY)) {
    VP_ASSERT(nafter == nwant, "the channel holds exactly the servers of the applied list (none kept from before, none duplicated)");
    for (i = 0; i < nwant && i < nafter; i++)
      VP_ASSERT(after[i].a == want[i].a && after[i].udp == want[i].udp && after[i].tcp == want[i].tcp,
                "same ordered server list: address, UDP port and TCP port of every entry");
  } else {
    VP_ASSERT(nafter == (nwant ? 1 : 0) && (nwant == 0 || (after[0].a == want[0].a && after[0].udp == want[0].udp && after[0].tcp == want[0].tcp)),
              "PRIMARY keeps only the first configured server");
  }
  if (user) VP_ASSERT(ch.optmask & ARES_OPT_SERVERS, "an explicitly supplied server list is recorded as user-specified (even when identical to the current one)");
  else VP_ASSERT((ch.optmask & ARES_OPT_SERVERS) == (optmask0 & ARES_OPT_SERVERS), "a system-supplied list does not change the user-specified mark");
#endif
  for (i = 0; i < nbefore; i++)
    if (!in_set(after, nafter, &before[i]))
      set_changed = 1;
  for (i = 0; i < nafter; i++)
    if (!in_set(before, nbefore, &after[i]))
      set_changed = 1;
  if (set_changed) {
    VP_ASSERT(flush_calls >= 1, "a server added to or removed from the list empties the cache");
    VP_WITNESS("set changed, flushed");
  } else {
    /* same servers: did their priority order change?  (before[] is in list order: idx == position) */
    for (i = 0; i < nafter && i < nbefore; i++)
      if (after[i].a != before[i].a || after[i].udp != before[i].udp || after[i].tcp != before[i].tcp)
        order_changed = 1;
    if (order_changed) {
      VP_ASSERT(!CHECK_reorder || flush_calls >= 1,
                "FINDING servers_reorder_noflush: re-ordering the same servers is a server-list change and empties the cache");
      VP_WITNESS("order changed only");
    } else {
      VP_WITNESS("list unchanged");
    }
  }
  ares_llist_destroy(cfg);
  ares_slist_destroy(ch.servers);
  VP_WITNESS("end");
}
