/* C07 "on every event backend": ONE real wait() of an event backend (epoll / poll / select, -DBACKEND=0/1/2) with an
 * ARBITRARY timeout in the range the event thread can produce; the system call is a stub that records the timeout it
 * is given and reports "timed out, nothing ready".
 *
 * Range: the event thread passes 0 ("nothing pending, wait for ever") or remaining-milliseconds + 1, where the
 * remaining time of the earliest deadline is at most INT_MAX ms (ares_calc_query_timeout saturates there; every timeout
 * option is an int), i.e. timeout_ms in [1, 2^31].
 *
 * Asserted: the backend blocks indefinitely ONLY when asked to (0); otherwise the timeout it hands to the kernel is a
 * valid non-negative one and never longer than asked (waking early is harmless: the loop recomputes the hint; waking
 * later than the deadline, or never, is the violation), and it is not pointlessly short either (>= min(asked, 1 s)).
 * The handle table is empty (ares_htable_asvp_keys is a contract stub returning no keys): fd bookkeeping is not the
 * subject here. */
#include "vp.h"
#include "ares_private.h"
#include "event/ares_event.h"
#include <limits.h>
#include <poll.h>
#include <sys/select.h>
#ifdef HAVE_EPOLL
#  include <sys/epoll.h>
#endif

#ifndef BACKEND
#  define BACKEND 0
#endif

static int                W_calls;
static int                W_forever;   /* the kernel was asked to block without limit */
static int                W_valid;     /* the timeout handed over is one the kernel accepts */
static unsigned long long W_ms;        /* ... and this long (ms, rounded down) */

#ifdef HAVE_EPOLL
int epoll_wait(int epfd, struct epoll_event *events, int maxevents, int timeout)
{
  (void)epfd; (void)events; (void)maxevents;
  W_calls++;
  /* epoll_wait(2): -1 blocks indefinitely; any other negative value is unspecified (Linux: blocks indefinitely) */
  W_forever = (timeout < 0);
  W_valid   = (timeout >= -1);
  W_ms      = timeout > 0 ? (unsigned long long)timeout : 0;
  return 0;
}
#endif
int poll(struct pollfd *fds, nfds_t nfds, int timeout)
{
  (void)fds; (void)nfds;
  W_calls++;
  /* poll(2): "specifying a negative value in timeout means an infinite timeout" */
  W_forever = (timeout < 0);
  W_valid   = (timeout >= -1);
  W_ms      = timeout > 0 ? (unsigned long long)timeout : 0;
  return 0;
}
int select(int nfds, fd_set *r, fd_set *w, fd_set *x, struct timeval *tv)
{
  (void)nfds; (void)r; (void)w; (void)x;
  W_calls++;
  W_forever = (tv == NULL);
  /* select(2): EINVAL for a negative or non-normalised timeval */
  W_valid = (tv == NULL) || (tv->tv_sec >= 0 && tv->tv_usec >= 0 && tv->tv_usec < 1000000);
  W_ms    = (tv != NULL && W_valid) ? (unsigned long long)tv->tv_sec * 1000ull + (unsigned long long)tv->tv_usec / 1000ull : 0;
  return 0;
}

ares_socket_t *ares_htable_asvp_keys(const ares_htable_asvp_t *htable, size_t *num)
{
  (void)htable;
  *num = 0;
  return NULL;
}
void *ares_htable_asvp_get_direct(const ares_htable_asvp_t *htable, ares_socket_t key)
{
  (void)htable; (void)key;
  return NULL;
}

void harness(void)
{
  ares_event_thread_t     e;
  int                     epfd = 5;
  unsigned long           ms;
  const ares_event_sys_t *sys =
#if BACKEND == 0
    &ares_evsys_epoll;
#elif BACKEND == 1
    &ares_evsys_poll;
#else
    &ares_evsys_select;
#endif
  vp_alloc_install();
  memset(&e, 0, sizeof(e));
  e.ev_sys_data = &epfd; /* ares_evsys_epoll_t is { int epoll_fd; }: only that member is read by wait() */
  ms            = (unsigned long)vp_u64();
  VP_ASSUME(ms <= 2147483648ul); /* 0 or remaining (<= INT_MAX ms) + 1 */

  (void)sys->wait(&e, ms);

  VP_ASSERT(W_calls == 1, "one wait system call per loop iteration");
  VP_ASSERT(W_valid, "the timeout handed to the kernel is a valid one");
  if (ms == 0) {
    VP_ASSERT(W_forever, "nothing pending: block until an event");
    VP_WITNESS("forever");
  } else {
    VP_ASSERT(!W_forever, "a pending deadline never turns into an unbounded wait");
    VP_ASSERT(W_ms <= ms, "the backend never sleeps past the instant it was asked to wake at");
    VP_ASSERT(W_ms >= (ms < 1000 ? ms : 1000), "nor spins: it sleeps min(asked, 1 s) at least");
    if (ms == 2147483648ul) VP_WITNESS("largest");
    VP_WITNESS("bounded");
  }
  VP_WITNESS("end");
}
