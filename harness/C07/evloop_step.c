/* C07 event thread: ONE iteration of the real ares_event_thread() loop.  The sleep handed to the backend wait() must
 * be finite (non-zero; 0 means "no limit") whenever a request is pending - whatever the hint is, {0,0} included - must
 * not be shorter than useful by more than rounding, and not later than the hint by more than 1 ms; and it is "no
 * limit" only when nothing is pending.  The event mutex is never held while calling into the channel.
 * Real: ares_event_thread (loop body), ares_event_process_updates (static, empty update list).
 * Stubs: ares_timeout (arbitrary hint or none), backend wait() (recorder that stops the loop), mutex as ghost depth,
 * channel entry points assert the event mutex is NOT held. */
#include "vp.h"
#include "event/ares_event_thread.c"

static int            ev_mutex_depth;
static int            have_hint;
static struct timeval hint;
static unsigned long  waited_ms;
static int            wait_calls, process_calls;

ares_status_t ares_thread_mutex_lock_stub(void);
void ares_thread_mutex_lock(ares_thread_mutex_t *m) { (void)m; ev_mutex_depth++; }
void ares_thread_mutex_unlock(ares_thread_mutex_t *m) { (void)m; VP_ASSERT(ev_mutex_depth > 0, "unlock only while locked"); ev_mutex_depth--; }
struct timeval *ares_timeout(const ares_channel_t *channel, struct timeval *maxtv, struct timeval *tvbuf)
{
  (void)channel; (void)maxtv;
  VP_ASSERT(ev_mutex_depth == 0, "the event mutex is not held while calling into the channel (ares_timeout)");
  if (!have_hint) return NULL;
  *tvbuf = hint;
  return tvbuf;
}
ares_status_t ares_process_fds(ares_channel_t *channel, const ares_fd_events_t *events, size_t nevents, unsigned int flags)
{
  (void)channel; (void)events; (void)nevents; (void)flags;
  VP_ASSERT(ev_mutex_depth == 0, "the event mutex is not held while calling into the channel (ares_process_fds)");
  process_calls++;
  return ARES_SUCCESS;
}
void ares_process_pending_write(ares_channel_t *channel)
{
  (void)channel;
  VP_ASSERT(ev_mutex_depth == 0, "the event mutex is not held while calling into the channel (pending write)");
}
static size_t my_wait(ares_event_thread_t *e, unsigned long timeout_ms)
{
  VP_ASSERT(ev_mutex_depth == 0, "the event mutex is not held while sleeping");
  waited_ms = timeout_ms;
  wait_calls++;
  e->isup = vp_bool() ? ARES_TRUE : ARES_FALSE; /* shutdown may be requested while sleeping */
  if (wait_calls >= 1 && e->isup) e->isup = ARES_FALSE; /* one iteration */
  return 0;
}
static void my_destroy(ares_event_thread_t *e) { (void)e; }

void harness(void)
{
  static ares_event_thread_t e;
  static ares_event_sys_t    sys;
  static ares_channel_t      ch;

  vp_alloc_install();
  sys.wait     = my_wait;
  sys.destroy  = my_destroy;
  e.isup       = ARES_TRUE;
  e.channel    = &ch;
  e.ev_sys     = &sys;
  e.ev_updates = ares_llist_create(NULL);
  e.process_pending_write = vp_bool() ? ARES_TRUE : ARES_FALSE;
  have_hint    = vp_bool();
  hint.tv_sec  = (time_t)vp_range(0, 4000000);
  hint.tv_usec = (suseconds_t)vp_range(0, 999999);

  ares_event_thread(&e);

  VP_ASSERT(wait_calls == 1, "one sleep per loop iteration");
  if (have_hint) {
    unsigned long lo = (unsigned long)hint.tv_sec * 1000UL + (unsigned long)hint.tv_usec / 1000UL;
    VP_ASSERT(waited_ms != 0, "with a request pending the event thread never sleeps without a limit (a passed deadline included)");
    VP_ASSERT(waited_ms >= lo, "it does not wake before the hint (rounded down to ms)");
    VP_ASSERT(waited_ms <= lo + 1, "it does not sleep more than 1 ms past the hint");
    if (hint.tv_sec == 0 && hint.tv_usec == 0) VP_WITNESS("deadline already passed");
  } else {
    VP_ASSERT(waited_ms == 0, "nothing pending: sleeps until woken");
    VP_WITNESS("nothing pending");
  }
  VP_ASSERT(ev_mutex_depth == 0, "event mutex released on exit");
  VP_WITNESS("end");
}
