/* C07 / ares_timeout(): the hint is never negative, never later than the earliest pending deadline, never later than
 * the caller's maximum, and "no limit" (maxtv itself / NULL) only when nothing is pending.
 * Real: ares_timeout, ares_timeout_int, ares_timeval_remaining, struct conversions (ares_timeout.c included).
 * State: 0..2 pending requests with ARBITRARY deadlines in the (reference) timeout index, arbitrary clock, maxtv NULL or
 * arbitrary non-negative. */
#include "vp.h"
#include "ares_timeout.c"
#include "world.h"

static ares_timeval_t g_now;
void ares_tvnow(ares_timeval_t *now) { *now = g_now; }

void harness(void)
{
  static ares_channel_t ch;
  static ares_query_t   q[2];
  struct timeval        maxtv, tvbuf, *rv;
  int                   n, i, use_max;
  ares_int64_t          best_sec = 0;
  unsigned int          best_usec = 0;
  long long             rem_us;

  vp_alloc_install();
  world_init(&ch);
  n          = (int)vp_range(0, 2);
  g_now.sec  = (ares_int64_t)vp_range(0, (size_t)1 << 40);
  g_now.usec = (unsigned int)vp_range(0, 999999);
  for (i = 0; i < n; i++) {
    q[i].timeout.sec  = (ares_int64_t)vp_range(0, (size_t)1 << 40);
    q[i].timeout.usec = (unsigned int)vp_range(0, 999999);
    VP_ASSUME(ares_slist_insert(ch.queries_by_timeout, &q[i]) != NULL);
    if (i == 0 || q[i].timeout.sec < best_sec || (q[i].timeout.sec == best_sec && q[i].timeout.usec < best_usec)) {
      best_sec  = q[i].timeout.sec;
      best_usec = q[i].timeout.usec;
    }
  }
  use_max       = vp_bool();
  maxtv.tv_sec  = (time_t)vp_range(0, (size_t)1 << 40);
  maxtv.tv_usec = (suseconds_t)vp_range(0, 999999);
  tvbuf.tv_sec  = -1;
  tvbuf.tv_usec = -1;

  rv = ares_timeout(&ch, use_max ? &maxtv : NULL, &tvbuf);

  if (n == 0) {
    VP_ASSERT(rv == (use_max ? &maxtv : NULL), "nothing pending: the caller's own maximum (or none) is returned");
    VP_WITNESS("nothing pending");
  } else {
    VP_ASSERT(rv != NULL, "a request is pending: a finite hint is returned");
    VP_ASSERT(rv->tv_sec >= 0 && rv->tv_usec >= 0 && rv->tv_usec < 1000000, "hint is a non-negative normalised interval");
    /* reference interval, as a (seconds, microseconds) pair: no wide multiplications for the solver */
    {
      long long rs; long ru; int rem_zero;
      if (best_sec < g_now.sec || (best_sec == g_now.sec && best_usec <= g_now.usec)) { rs = 0; ru = 0; }
      else if (best_usec >= g_now.usec) { rs = best_sec - g_now.sec; ru = (long)best_usec - (long)g_now.usec; }
      else { rs = best_sec - g_now.sec - 1; ru = (long)best_usec + 1000000 - (long)g_now.usec; }
      rem_zero = (rs == 0 && ru == 0);
      if (use_max && ((long long)maxtv.tv_sec < rs || ((long long)maxtv.tv_sec == rs && (long)maxtv.tv_usec < ru))) {
        VP_ASSERT((long long)rv->tv_sec == (long long)maxtv.tv_sec && (long)rv->tv_usec == (long)maxtv.tv_usec,
                  "hint never later than the caller's maximum (the maximum is the smaller one)");
        VP_WITNESS("caller maximum wins");
      } else {
        VP_ASSERT((long long)rv->tv_sec == rs && (long)rv->tv_usec == ru,
                  "hint is exactly the time to the EARLIEST pending deadline (0 when it has passed): never later, never negative");
      }
      rem_us = rem_zero ? 0 : 1;
    }
    if (rem_us == 0) VP_WITNESS("already expired");
    if (n == 2) VP_WITNESS("two pending");
  }
  VP_WITNESS("end");
}
