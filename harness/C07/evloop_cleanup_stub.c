/* replaces the body of the static ares_event_thread_cleanup(): teardown of the backend containers is not the subject */
#include "ares_private.h"
#include "event/ares_event.h"
void ares_event_thread_cleanup(ares_event_thread_t *e) { (void)e; }
