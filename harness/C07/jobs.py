import os, sys
sys.path.insert(0, os.path.join(os.path.dirname(os.path.abspath(__file__)), "..", "machine"))
import mjobs
OUTSIDE = ("that the kernel honours the poll timeout and that a pipe write really wakes epoll/poll/select; wall-clock completion of "
           "a threaded run; more than 2 requests in flight per step")
ASSUMPTIONS = mjobs.ASSUMPTIONS

def jobs(tier, seed):
    J = [dict(name="timeout_hint", harness="timeout_hint.c", real=["src/lib/ares_library_init.c", "src/lib/dsa/ares_llist.c"],
              support=["vp_rt.c", "valloc.c", "memloops.c", "slist_ref.c", "szvp_ref.c", "asvp_ref.c", "lock_ghost.c", "vsock.c", "world.c"],
              unwind=8, backend="cadical", witnesses=["end", "nothing pending", "already expired", "two pending"],
              bound="ONE ares_timeout with 0..2 pending deadlines, clock and deadlines anywhere in [0,2^40] s with microseconds, "
                    "maxtv NULL or any non-negative value")]
    J += mjobs.timeouts_jobs(tier)
    J += mjobs.wake_jobs(tier)
    J += mjobs.flush_jobs(tier)
    # a request that stays live after a send attempt has a deadline registered, also when an allocation of the attempt fails
    J += [j for j in mjobs.sendquery_oom_jobs(tier) if "_vc0_" in j["name"]]
    J.append(dict(name="evloop_step", harness="evloop_step.c", real=["src/lib/ares_library_init.c", "src/lib/dsa/ares_llist.c"],
                  support=["vp_rt.c", "valloc.c", "memloops.c", "asvp_ref.c"], unwind=4, backend="cadical", mem_gb=6,
                  replace=["ares_event_thread_cleanup"], replace_with=["evloop_cleanup_stub.c"],
                  witnesses=["end", "deadline already passed", "nothing pending"],
                  bound="ONE iteration of the ares_event_thread loop: hint absent or any value 0..4e6 s with microseconds "
                        "(the already-passed deadline {0,0} included), pending-write flag symbolic"))
    for k, be in enumerate(("epoll", "poll", "select")):
        J.append(dict(name="backend_wait_%s" % be, harness="backend_wait.c", defines=["-DBACKEND=%d" % k], backend="cadical",
                      real=["src/lib/event/ares_event_%s.c" % be, "src/lib/ares_library_init.c"],
                      support=["vp_rt.c", "valloc.c", "memloops.c"], unwind=18, kf_group="backend_wait",
                      witnesses=["end", "forever", "bounded", "largest"],
                      bound="ONE real ares_evsys_%s wait() with timeout_ms ARBITRARY in [0, 2^31] (0 = nothing pending, else remaining "
                            "<= INT_MAX ms + 1), empty handle table, %s() a recording stub" % (be, {"epoll": "epoll_wait"}.get(be, be))))
    return J
