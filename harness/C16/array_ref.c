/* Reference implementation of the ares_array contract with FIXED capacity (no realloc, no symbolic
 * allocation size): used by the text-parser harnesses instead of dsa/ares_array.c, whose growth path
 * (ares_realloc_zero with a count-dependent size) makes every token allocation symbolic.  The real
 * ares_array is checked against the same contract in C19.  Behaviour that callers can observe is kept:
 * storage is allocated lazily, so ares_array_finish() of a never-filled array returns NULL with 0 members
 * (exactly like the real one), elements stay contiguous from index 0, the destructor is called on each
 * member by ares_array_destroy().  Exceeding the capacity is a BOUND (inconclusive), never a verdict. */
#include "ares_private.h"
#include "vp.h"

#ifndef VP_ARRAY_CAP
#  define VP_ARRAY_CAP 8
#endif
#ifndef VP_ARRAY_MS
#  define VP_ARRAY_MS 8 /* every array in the code under test holds pointers */
#endif

struct ares_array {
  ares_array_destructor_t destruct;
  unsigned char          *arr;
  size_t                  member_size;
  size_t                  cnt;
};

ares_array_t *ares_array_create(size_t member_size, ares_array_destructor_t destruct)
{
  ares_array_t *a;
  if (member_size == 0)
    return NULL;
  VP_BOUND(member_size == VP_ARRAY_MS, "array_ref: member size other than VP_ARRAY_MS");
  a = ares_malloc_zero(sizeof(*a));
  if (a == NULL)
    return NULL;
  a->member_size = member_size;
  a->destruct    = destruct;
  return a;
}

size_t ares_array_len(const ares_array_t *arr) { return arr == NULL ? 0 : arr->cnt; }

void *ares_array_at(ares_array_t *arr, size_t idx)
{
  if (arr == NULL || idx >= arr->cnt)
    return NULL;
  return arr->arr + idx * VP_ARRAY_MS;
}
const void *ares_array_at_const(const ares_array_t *arr, size_t idx)
{
  if (arr == NULL || idx >= arr->cnt)
    return NULL;
  return arr->arr + idx * VP_ARRAY_MS;
}
void *ares_array_first(ares_array_t *arr) { return ares_array_at(arr, 0); }
void *ares_array_last(ares_array_t *arr) { return (arr == NULL || arr->cnt == 0) ? NULL : ares_array_at(arr, arr->cnt - 1); }

void ares_array_destroy(ares_array_t *arr)
{
  size_t i;
  if (arr == NULL)
    return;
  if (arr->destruct != NULL) {
    for (i = 0; i < arr->cnt; i++)
      arr->destruct(arr->arr + i * VP_ARRAY_MS);
  }
  ares_free(arr->arr);
  ares_free(arr);
}

void *ares_array_finish(ares_array_t *arr, size_t *num_members)
{
  void *ptr;
  if (arr == NULL || num_members == NULL)
    return NULL;
  ptr          = arr->arr;
  *num_members = arr->cnt;
  ares_free(arr);
  return ptr;
}

ares_status_t ares_array_insert_last(void **elem_ptr, ares_array_t *arr)
{
  unsigned char *p;
  size_t         i;
  if (arr == NULL)
    return ARES_EFORMERR;
  if (arr->arr == NULL) {
    arr->arr = ares_malloc_zero(VP_ARRAY_CAP * VP_ARRAY_MS);
    if (arr->arr == NULL)
      return ARES_ENOMEM;
  }
  VP_BOUND(arr->cnt < VP_ARRAY_CAP, "array_ref: more members than VP_ARRAY_CAP");
  p = arr->arr + arr->cnt * VP_ARRAY_MS;
  for (i = 0; i < VP_ARRAY_MS; i++)
    p[i] = 0;
  arr->cnt++;
  if (elem_ptr != NULL)
    *elem_ptr = p;
  return ARES_SUCCESS;
}

ares_status_t ares_array_insertdata_last(ares_array_t *arr, const void *data_ptr)
{
  void         *p = NULL;
  size_t        i;
  ares_status_t st = ares_array_insert_last(&p, arr);
  if (st != ARES_SUCCESS)
    return st;
  for (i = 0; i < VP_ARRAY_MS; i++)
    ((unsigned char *)p)[i] = ((const unsigned char *)data_ptr)[i];
  return ARES_SUCCESS;
}

ares_status_t ares_array_remove_last(ares_array_t *arr)
{
  if (arr == NULL || arr->cnt == 0)
    return ARES_EFORMERR;
  if (arr->destruct != NULL)
    arr->destruct(arr->arr + (arr->cnt - 1) * VP_ARRAY_MS);
  arr->cnt--;
  return ARES_SUCCESS;
}
