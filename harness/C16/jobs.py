OUTSIDE = "(draft)"
ASSUMPTIONS = []

LIB = ["src/lib/ares_library_init.c", "src/lib/str/ares_str.c"]
SUP = ["vp_rt.c", "valloc.c", "memloops.c"]


def us(d):
    return ["%s:%d" % (k, v) for k, v in sorted(d.items())]


def userwins_jobs(tier):
    return [dict(name="c16_userwins", harness="userwins.c", real=LIB + ["src/lib/str/ares_strsplit.c"], support=SUP, unwind=26, leak=True,
                 witnesses=["end", "servers applied", "domains applied", "lookups applied", "sortlist applied",
                            "all scalar options explicit", "apply failed"],
                 bound="ONE ares_sysconfig_apply from a channel with arbitrary optmask (legacy ARES_OPT_TIMEOUT bit clear) and arbitrary "
                       "scalars, 0-1 domains, 0-1 sortlist entries, lookups NULL/b/fb; sysconfig arbitrary scalars, 0-1 domains, 0-1 "
                       "sortlist entries, lookups NULL/f/bf, server list present or not; ares_servers_update recorder returning success "
                       "or ENOMEM")]


def saveinit_jobs(tier):
    return [dict(name="c16_saveinit", harness="saveinit.c",
                 real=LIB + ["src/lib/str/ares_strsplit.c", "src/lib/ares_options.c", "src/lib/ares_update_servers.c", "src/lib/dsa/ares_llist.c"],
                 support=SUP + ["slist_ref.c"], unwind=20, unwindset=us({"vp_bytes.0": 200, "memcmp.0": 18, "ares_in_addr_to_sconfig_llist.0": 2, "ares_servers_update.0": 2,
                               "ares_server_find.0": 3, "ares_server_isdup.0": 2, "ares_servers_remove_stale.0": 3,
                               "ares_server_in_newconfig.0": 3, "slist_link.0": 3, "ares_llist_clear.0": 3, "ares_slist_destroy.0": 3,
                               "ares_save_opt_servers.0": 3, "ares_servers_trim_single.0": 3, "ares_slist_node_find.0": 3,
                               "ares_save_options.0": 3, "ares_save_options.1": 3, "ares_init_by_options.0": 3,
                               "ares_init_by_options.1": 3, "ares_destroy_options.0": 3, "ares_free_array.1": 3}), leak=True,
                 witnesses=["end", "server re-created", "no explicit option", "domains sortlist lookups copied"],
                 bound="channel A = reachable configured state with arbitrary optmask and arbitrary validated scalars, 0-1 domains, 0-1 "
                       "sortlist entries, lookups b/fb, optional paths, ONE server (IPv4 or IPv6, arbitrary address); options struct "
                       "pre-filled with arbitrary bytes; real ares_save_options -> ares_init_by_options(B) -> ares_destroy_options")]


def ntop_pton_jobs(tier):
    J = []
    u = {"ares_inet_net_pton_ipv4.0": 17, "ares_inet_net_pton_ipv4.1": 5, "ares_inet_net_pton_ipv4.2": 6,
         "ares_inet_net_pton_ipv4.3": 4, "ares_inet_net_pton_ipv4.4": 5, "vp_put_num.0": 12, "vp_put_num.1": 12,
         "snprintf.0": 14, "snprintf.1": 17, "strlen.0": 48, "memcpy.0": 48, "harness.1": 48}
    J.append(dict(name="c16_ntop_pton_v4", harness="ntop_pton.c", defines=["-DAF=AF_INET"],
                  real=["src/lib/inet_ntop.c", "src/lib/inet_net_pton.c", "src/lib/str/ares_str.c"],
                  support=["vp_rt.c", "memloops.c", "libc_extra.c"], unwind=18, unwindset=us(u),
                  bound="all 2^32 IPv4 addresses: real ares_inet_ntop -> real ares_inet_pton"))
    return J


def q(s):
    return '"%s"' % s


def servertext_jobs(tier):
    J = []
    shapes = [("v4_short", "AF_INET", "1,2,3,4", ""), ("v4_long", "AF_INET", "192,168,100,254", ""),
              ("v4_zero", "AF_INET", "0,0,0,0", "")]
    if tier != "quick":
        shapes += [("v4_mixed", "AF_INET", "10,200,3,44", ""),
                   ("v6_global", "AF_INET6", "0x20,0x01,0x0d,0xb8,0,0,0,0,0,0,0,0,0,0,0,1", ""),
                   ("v6_ll_iface", "AF_INET6", "0xfe,0x80,0,0,0,0,0,0,0,0,0,0,0,0,0,1", "eth0"),
                   ("v6_ll_iface15", "AF_INET6", "0xfe,0x80,0,0,0,0,0,0,0,0,0,0,0,0,0x12,0x34", "abcdefghijklmno")]
    for nm, fam, addr, iface in shapes:
        n = 48 if fam == "AF_INET6" else 24
        u = {"ares_buf_split.2": 2, "ares_buf_split.0": 2, "ares_buf_split.1": 2, "ares_sconfig_append_fromstr.0": 2,
             "ares_array_destroy.0": 2, "ares_array_insertdata_last.0": 9, "ares_array_insert_last.1": 9,
             "ares_llist_clear.0": 3, "ares_buf_consume_charset.0": 71, "ares_buf_append_num_dec.0": 6,
             "ares_count_digits.0": 7, "ares_pow.0": 5, "ares_buf_ensure_space.0": 3, "strtol.0": 8, "harness.0": 17,
             "vp_put_num.0": 12, "vp_put_num.1": 12, "snprintf.0": 14, "snprintf.1": 17, "vp_realloc.0": 70}
        J.append(dict(name="c16_servertext_%s" % nm, harness="servertext.c",
                      defines=["-DFAMILY=" + fam, "-DADDR=" + addr, "-DIFACE=" + q(iface)],
                      real=LIB + ["src/lib/str/ares_buf.c", "src/lib/inet_ntop.c", "src/lib/inet_net_pton.c", "src/lib/ares_hosts_file.c",
                                  "src/lib/dsa/ares_llist.c", "src/lib/util/ares_math.c"],
                      support=SUP + ["libc_extra.c", "array_ref.c"], unwind=n + 2, unwindset=us(u), leak=True,
                      instrument=[["--restrict-function-pointer", "ares_llist_node_destroy.function_pointer_call.1/ares_free"]],
                      bound="server %s %s%s with ARBITRARY port (udp == tcp, all 2^16): real ares_get_server_addr -> real "
                            "ares_sconfig_append_fromstr(strict)" % (fam, addr, (" iface " + iface) if iface else "")))
    return J


def jobs(tier, seed):
    J = []
    J += userwins_jobs(tier)
    J += saveinit_jobs(tier)
    J += ntop_pton_jobs(tier)
    J += servertext_jobs(tier)
    return J
