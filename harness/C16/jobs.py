OUTSIDE = ("the dns://host:port?tcpport=N URI text form used when UDP and TCP port differ (ares_uri.c is not in the formula: servers here "
           "have udp_port == tcp_port); several servers in one CSV text and ares_get_servers_csv's list loop (one server per text); IPv6 "
           "address -> text -> address for arbitrary group values (only concrete IPv6 addresses in c16_servertext_*, IPv4 is value-generic in "
           "c16_ntop_pton_v4); save -> init of an IPv6-only explicit server list (the legacy options struct carries IPv4 only: the bit is "
           "dropped, asserted as such; ares_dup re-applies servers as text); option values above INT_MAX (the options struct is int: "
           "assumed away as unreachable through the option API, reachable only through resolv.conf numbers, see C15 c15_opt_sign); "
           "ares_reinit's thread handling (C11); real ares_init_options inside ares_dup (stubbed recorder)")
ASSUMPTIONS = ["c16_userwins: ares_servers_update is a recorder; channel optmask never has the legacy ARES_OPT_TIMEOUT bit",
               "c16_saveinit: channel A satisfies the reachable-state invariant written in harness/C16/saveinit.c (a set option bit implies its "
               "validated value, ARES_OPT_QUERY_CACHE always set, never EVENT_THREAD together with SOCK_STATE_CB); slist_ref.c replaces the "
               "skip list; ares_qcache_flush no-op; ares_threadsafety() true",
               "c16_servertext: round trip proved in two halves meeting at the text model ADDR:PORT[%IFACE] (render: real ares_get_server_addr "
               "== model for all 2^16 ports; parse: real ares_sconfig_append_fromstr(model) reproduces the server, address converter replaced "
               "by a recorder that accepts exactly the address text; real inet_ntop -> real inet_pton identity is c16_ntop_pton_v4); "
               "array_ref.c replaces ares_array; aif_nametoindex returns scope 7",
               "libc_extra.c: snprintf is a harness model restricted to %u %d %x %s %% (CBMC has none); strtoul/memchr as in C15",
               "c16_dup: ares_save_options / ares_init_options / ares_destroy_options / ares_get_servers_csv / ares_set_servers_ports_csv / "
               "ares_destroy / channel lock are recorders returning arbitrary status"]

LIB = ["src/lib/ares_library_init.c", "src/lib/str/ares_str.c"]
SUP = ["vp_rt.c", "valloc.c", "memloops.c"]


def us(d):
    return ["%s:%d" % (k, v) for k, v in sorted(d.items())]


def userwins_jobs(tier):
    return [dict(name="c16_userwins", harness="userwins.c", real=LIB + ["src/lib/str/ares_strsplit.c"], support=SUP, unwind=26, leak=True,
                 witnesses=["end", "servers applied", "domains applied", "lookups applied", "sortlist applied",
                            "all scalar options explicit", "apply failed"],
                 bound="ONE ares_sysconfig_apply from a channel with arbitrary optmask (legacy ARES_OPT_TIMEOUT bit clear) and arbitrary "
                       "scalars, 0-1 domains, 0-1 sortlist entries, lookups NULL/b/fb; sysconfig arbitrary scalars, 0-1 domains, 0-1 "
                       "sortlist entries, lookups NULL/f/bf, server list present or not; ares_servers_update recorder returning success "
                       "or ENOMEM")]


def saveinit_jobs(tier):
    return [dict(name="c16_saveinit", harness="saveinit.c",
                 real=LIB + ["src/lib/str/ares_strsplit.c", "src/lib/ares_options.c", "src/lib/ares_update_servers.c", "src/lib/dsa/ares_llist.c"],
                 support=SUP + ["slist_ref.c", "lock_ghost.c"], unwind=20, unwindset=us({"vp_bytes.0": 200, "memcmp.0": 18, "ares_in_addr_to_sconfig_llist.0": 2, "ares_servers_update.0": 2,
                               "ares_server_find.0": 3, "ares_server_isdup.0": 2, "ares_servers_remove_stale.0": 3,
                               "ares_server_in_newconfig.0": 3, "slist_link.0": 3, "ares_llist_clear.0": 3, "ares_slist_destroy.0": 3,
                               "ares_save_opt_servers.0": 3, "ares_servers_trim_single.0": 3, "ares_slist_node_find.0": 3,
                               "ares_save_options.0": 3, "ares_save_options.1": 3, "ares_init_by_options.0": 3,
                               "ares_init_by_options.1": 3, "ares_destroy_options.0": 3, "ares_free_array.1": 3}), leak=True,
                 witnesses=["end", "server re-created", "no explicit option", "domains sortlist lookups copied"],
                 bound="channel A = reachable configured state with arbitrary optmask and arbitrary validated scalars, 0-1 domains, 0-1 "
                       "sortlist entries, lookups b/fb, optional paths, ONE server (IPv4 or IPv6, arbitrary address); options struct "
                       "pre-filled with arbitrary bytes; real ares_save_options -> ares_init_by_options(B) -> ares_destroy_options")]


def ntop_pton_jobs(tier):
    J = []
    u = {"ares_inet_net_pton_ipv4.0": 17, "ares_inet_net_pton_ipv4.1": 5, "ares_inet_net_pton_ipv4.2": 6,
         "ares_inet_net_pton_ipv4.3": 4, "ares_inet_net_pton_ipv4.4": 5, "vp_put_num.0": 12, "vp_put_num.1": 12,
         "snprintf.0": 14, "snprintf.1": 17, "strlen.0": 48, "memcpy.0": 48, "harness.1": 48}
    J.append(dict(name="c16_ntop_pton_v4", harness="ntop_pton.c", defines=["-DAF=AF_INET"],
                  real=["src/lib/inet_ntop.c", "src/lib/inet_net_pton.c", "src/lib/str/ares_str.c"],
                  support=["vp_rt.c", "memloops.c", "libc_extra.c"], unwind=18, unwindset=us(u),
                  bound="all 2^32 IPv4 addresses: real ares_inet_ntop -> real ares_inet_pton"))
    if tier != "quick":
        # IPv6: zero-run layout concrete per job (bit i of SHAPE set = 16-bit group i is zero), group values arbitrary
        for nm, shape in (("ll", 0x7E), ("global", 0x7C)):
            u6 = dict(u)
            u6.update({"ares_inet_pton6.0": 42, "ares_inet_pton6.1": 17, "getbits.0": 4, "ares_inet_net_pton_ipv4.0": 17,
                       "ares_inet_net_pton_ipv4.1": 5, "ares_inet_net_pton_ipv4.2": 6, "inet_ntop6.0": 17, "inet_ntop6.1": 9,
                       "inet_ntop6.2": 9, "harness.0": 9, "harness.1": 48, "harness.2": 17, "strchr.0": 18, "vp_bytes.0": 17})
            J.append(dict(name="c16_ntop_pton_v6_%s" % nm, harness="ntop_pton.c", defines=["-DAF=AF_INET6", "-DSHAPE=%d" % shape],
                          real=["src/lib/inet_ntop.c", "src/lib/inet_net_pton.c", "src/lib/str/ares_str.c"],
                          support=["vp_rt.c", "memloops.c", "libc_extra.c"], unwind=48, unwindset=us(u6),
                          bound="IPv6 addresses whose zero groups are exactly mask 0x%02x (group values arbitrary): real ares_inet_ntop -> "
                                "real ares_inet_pton" % shape))
    return J


def q(s):
    return '"%s"' % s


def servertext_jobs(tier):
    J = []
    shapes = [("v4_short", "AF_INET", "1,2,3,4", "1.2.3.4", ""), ("v4_long", "AF_INET", "192,168,100,254", "192.168.100.254", ""),
              ("v4_zero", "AF_INET", "0,0,0,0", "0.0.0.0", ""),
              ("v6_ll_iface", "AF_INET6", "0xfe,0x80,0,0,0,0,0,0,0,0,0,0,0,0,0,1", "fe80::1", "eth0")]
    if tier != "quick":
        shapes += [("v4_mixed", "AF_INET", "10,200,3,44", "10.200.3.44", ""),
                   ("v6_global", "AF_INET6", "0x20,0x01,0x0d,0xb8,0,0,0,0,0,0,0,0,0,0,0,1", "2001:db8::1", ""),
                   ("v6_ll_iface15", "AF_INET6", "0xfe,0x80,0,0,0,0,0,0,0,0,0,0,0,0,0x12,0x34", "fe80::1234", "abcdefghijklmno")]
    for si, (nm, fam, addr, atext, iface) in enumerate(shapes):
        n = len(atext) + 2 + 6 + (len(iface) + 1 if iface else 0)
        for mode in (0, 1):
            ds = (0,) if mode == 0 else ((1, 2, 3, 4, 5) if (si == 0 or tier != "quick") else (5 if si % 2 else 2,))
            for d in ds:
                u = {"ares_buf_split.2": 2, "ares_buf_split.0": 2, "ares_buf_split.1": 2, "ares_sconfig_append_fromstr.0": 2,
                     "ares_array_destroy.0": 2, "ares_array_insertdata_last.0": 9, "ares_array_insert_last.1": 9,
                     "ares_llist_clear.0": 3, "ares_buf_consume_charset.0": 71, "ares_buf_append_num_dec.0": 6,
                     "ares_count_digits.0": 7, "ares_pow.0": 5, "ares_buf_ensure_space.0": 3, "strtol.0": 8,
                     "vp_put_num.0": 12, "vp_put_num.1": 12, "snprintf.0": 14, "snprintf.1": 17, "vp_realloc.0": 70,
                     "ares_inet_pton6.1": 17, "memcpy.0": max(n + 2, 22), "ares_subnet_match.0": 18, "strchr.0": 18,
                     "ares_inet_pton.0": 48, "ares_inet_pton.1": 17}
                J.append(dict(name="c16_servertext_%s_%s" % (nm, "render" if mode == 0 else "parse_d%d" % d), harness="servertext.c",
                              defines=["-DMODE=%d" % mode, "-DD=%d" % d, "-DFAMILY=" + fam, "-DADDR=" + addr, "-DADDRTEXT=" + q(atext),
                                       "-DIFACE=" + q(iface)],
                              real=LIB + ["src/lib/str/ares_buf.c", "src/lib/inet_ntop.c", "src/lib/ares_hosts_file.c",
                                          "src/lib/dsa/ares_llist.c", "src/lib/util/ares_math.c"] +
                                   (["src/lib/inet_net_pton.c"] if mode == 0 else []),
                              support=SUP + ["libc_extra.c", "array_ref.c"], unwind=n + 2, unwindset=us(u), leak=True,
                              instrument=[["--restrict-function-pointer", "ares_llist_node_destroy.function_pointer_call.1/ares_free"]],
                              bound=("server %s%s, ARBITRARY port (udp == tcp): " % (atext, (" %" + iface) if iface else "")) +
                                    ("real ares_get_server_addr == text model ADDR:PORT[%IFACE], all 2^16 ports" if mode == 0 else
                                     "real ares_sconfig_append_fromstr(strict) on the text model with a %d-digit port reproduces the server" % d)))
    return J


def dup_jobs(tier):
    return [dict(name="c16_dup", harness="dup.c", real=LIB + ["src/lib/ares_init.c"], support=SUP, unwind=40,
                 unwindset=us({"vp_bytes.0": 200, "memcpy.0": 200, "memcmp.0": 200}), leak=True,
                 witnesses=["end", "dup ok", "dup failed", "late failure", "servers re-applied"],
                 bound="real ares_dup on a source channel with arbitrary non-option settings (callbacks set or not, arbitrary socket "
                       "function table bytes, local device name <= 31 arbitrary bytes, local IPv4/IPv6); save/init/csv stubs return "
                       "arbitrary success/failure and an arbitrary option mask")]


def servers_update_jobs(tier):
    """C16 'same ordered server list': the real ares_servers_update (harness shared with C08's flush check)."""
    J = []
    for ns, nc in ((0, 1), (1, 1), (1, 2), (2, 1), (2, 2)) + (((2, 3), (3, 2)) if tier != "quick" else ()):
        J.append(dict(name="c16_servers_update_ns%d_nc%d" % (ns, nc), harness="../C08/servers_flush.c",
                      defines=["-DNS=%d" % ns, "-DNC=%d" % nc, "-DC16_LISTEQ", "-DKF_servers_reorder_noflush"],
                      real=["src/lib/ares_library_init.c", "src/lib/dsa/ares_llist.c", "src/lib/str/ares_str.c"],
                      support=["vp_rt.c", "valloc.c", "memloops.c", "slist_ref.c"], unwind=max(ns, nc) + 3, mem_gb=6,
                      unwindset=["ares_strlen.0:2", "strlen.0:2", "memcmp.0:6", "memcpy.0:17"], witnesses=["end"],
                      bound="%d existing servers and a new configuration of %d entries (IPv4 last byte 1..3, ports default|53|54 "
                            "independently for UDP and TCP), PRIMARY or not, user-specified or system list; ONE "
                            "ares_servers_update" % (ns, nc)))
    return J


def jobs(tier, seed):
    J = []
    J += userwins_jobs(tier)
    J += saveinit_jobs(tier)
    J += ntop_pton_jobs(tier)
    J += servertext_jobs(tier)
    J += dup_jobs(tier)
    J += servers_update_jobs(tier)
    J.append(dict(name="c16_initopts", harness="initopts.c",
                  real=LIB + ["src/lib/str/ares_strsplit.c", "src/lib/ares_options.c", "src/lib/ares_update_servers.c", "src/lib/dsa/ares_llist.c"],
                  support=SUP + ["slist_ref.c", "lock_ghost.c"], unwind=8, unwindset=us({"vp_bytes.0": 200}),
                  witnesses=["end", "accepted", "timeout in ms", "timeout in seconds"],
                  bound="ONE ares_init_by_options on a fresh channel: options struct of ARBITRARY bytes, ARBITRARY mask over the scalar "
                        "options (flags, timeout in seconds or ms, tries, ndots, maxtimeout, ports, buffer sizes, EDNS size, udp max "
                        "queries, rotate/norotate)"))
    J.append(dict(name="c16_sockfuncs_install", harness="sockfuncs_install.c", real=["src/lib/ares_set_socket_functions.c", "src/lib/str/ares_str.c", "src/lib/ares_library_init.c"],
                  support=["vp_rt.c", "valloc.c", "memloops.c", "lock_ghost.c"], unwind=8, witnesses=["end", "installed", "refused"],
                  kf_group="c16_sockfuncs_install",
                  bound="ONE ares_set_socket_functions_ex with a version-1 table of ten distinct functions, any flags, complete or with "
                        "one of the six mandatory members missing"))
    if tier == "quick":
        for job in J:   # measured unloaded: every quick job <= 60 s; the machine is shared, leave head room
            job.setdefault("timeout", 480)
            job["mem_gb"] = min(job.get("mem_gb", 6), 6)   # shared machine: no quick job may need more than 6 GB
    return J
