/* libc functions that CBMC 6.11 ships no model for (a call would be a no-body
 * failure).  Faithful small implementations per ISO C; native replay builds use
 * the real libc. */
#ifndef VP_NATIVE
#include <stddef.h>
#include <limits.h>
#include <stdarg.h>

/* ISO C snprintf restricted to the conversions the code under test uses (inet_ntop.c: "%u.%u.%u.%u", "%x";
 * ares_update_servers.c: "%d", "%s%%%s"): %u %d %x %s %%, no flags/width/precision (anything else is rejected by a
 * failing assertion).  Returns the length the full output would have; writes at most size-1 characters + NUL.
 * CBMC 6.11 does not apply the default argument promotions to variadic arguments (an unsigned char argument read
 * back with va_arg(ap, unsigned) is an out-of-bounds read of a 1-byte slot), so each conversion reads the type its
 * only call site passes: unsigned char for "%u" (inet_ntop4: src[i]), unsigned int for "%x" (inet_ntop6: words[i]),
 * unsigned short for "%d" (ares_get_server_addr_uri: tcp_port). */
static size_t vp_put(char *dst, size_t size, size_t at, char c)
{
  if (at + 1 < size)
    dst[at] = c;
  return at + 1;
}
static size_t vp_put_num(char *dst, size_t size, size_t at, unsigned long v, unsigned base)
{
  char   tmp[24];
  size_t n = 0, i;
  do {
    unsigned d = (unsigned)(v % base);
    tmp[n++]   = (char)(d < 10 ? '0' + d : 'a' + (d - 10));
    v /= base;
  } while (v != 0 && n < sizeof(tmp));
  for (i = n; i > 0; i--)
    at = vp_put(dst, size, at, tmp[i - 1]);
  return at;
}
int snprintf(char *dst, size_t size, const char *fmt, ...)
{
  va_list ap;
  size_t  at = 0, i;
  va_start(ap, fmt);
  for (i = 0; fmt[i] != 0; i++) {
    if (fmt[i] != '%') {
      at = vp_put(dst, size, at, fmt[i]);
      continue;
    }
    i++;
    if (fmt[i] == 'u') {
      at = vp_put_num(dst, size, at, va_arg(ap, unsigned char), 10);
    } else if (fmt[i] == 'x') {
      at = vp_put_num(dst, size, at, va_arg(ap, unsigned int), 16);
    } else if (fmt[i] == 'd') {
      int v = (int)va_arg(ap, unsigned short);
      if (v < 0) {
        at = vp_put(dst, size, at, '-');
        at = vp_put_num(dst, size, at, 0UL - (unsigned long)(long)v, 10);
      } else {
        at = vp_put_num(dst, size, at, (unsigned long)v, 10);
      }
    } else if (fmt[i] == 's') {
      const char *s = va_arg(ap, const char *);
      size_t      k;
      for (k = 0; s[k] != 0; k++)
        at = vp_put(dst, size, at, s[k]);
    } else if (fmt[i] == '%') {
      at = vp_put(dst, size, at, '%');
    } else {
      __CPROVER_assert(0, "BOUND:snprintf model: unsupported conversion");
    }
  }
  va_end(ap);
  if (size > 0)
    dst[at < size ? at : size - 1] = 0;
  return (int)at;
}

void *memchr(const void *s, int c, size_t n)
{
  const unsigned char *p = s;
  size_t               i;
  for (i = 0; i < n; i++)
    if (p[i] == (unsigned char)c)
      return (void *)(p + i);
  return NULL;
}

/* ISO C strtoul, bases 2..36 and 0; "C" locale white space; an optional sign; negation is performed in the
 * return type; ULONG_MAX on overflow (errno is not modelled: no caller in the code under test reads it). */
unsigned long strtoul(const char *nptr, char **endptr, int base)
{
  const char   *p   = nptr;
  unsigned long acc = 0;
  int           neg = 0, any = 0, ovf = 0;

  while (*p == ' ' || *p == '\t' || *p == '\n' || *p == '\v' || *p == '\f' || *p == '\r')
    p++;
  if (*p == '+' || *p == '-') {
    neg = (*p == '-');
    p++;
  }
  if ((base == 0 || base == 16) && p[0] == '0' && (p[1] == 'x' || p[1] == 'X') &&
      ((p[2] >= '0' && p[2] <= '9') || (p[2] >= 'a' && p[2] <= 'f') || (p[2] >= 'A' && p[2] <= 'F'))) {
    p    += 2;
    base  = 16;
  }
  if (base == 0)
    base = (*p == '0') ? 8 : 10;
  for (;; p++) {
    unsigned d;
    if (*p >= '0' && *p <= '9')
      d = (unsigned)(*p - '0');
    else if (*p >= 'a' && *p <= 'z')
      d = (unsigned)(*p - 'a') + 10;
    else if (*p >= 'A' && *p <= 'Z')
      d = (unsigned)(*p - 'A') + 10;
    else
      break;
    if (d >= (unsigned)base)
      break;
    any = 1;
    if (acc > (ULONG_MAX - d) / (unsigned long)base)
      ovf = 1;
    else
      acc = acc * (unsigned long)base + d;
  }
  if (endptr != NULL)
    *endptr = (char *)(any ? p : nptr);
  if (ovf)
    return ULONG_MAX;
  return neg ? (0UL - acc) : acc;
}
#endif
