/* C16 / c16_ntop_pton: address text round trip, the value-generic half of "the server list rendered as text and fed
 * back reproduces itself": ares_inet_ntop(a) -> ares_inet_pton(text) == a for EVERY IPv4 address (all 2^32), and for
 * IPv6 addresses of a concrete zero-run shape with arbitrary group values (-DAF=AF_INET6 -DSHAPE=n).
 * Real: inet_ntop.c, inet_net_pton.c, str/ares_str.c.  Stubs: snprintf = libc_extra.c (restricted ISO model). */
#include "vp.h"
#include "ares_private.h"
#include "ares_inet_net_pton.h"
#include <string.h>

#ifndef AF
#  define AF AF_INET
#endif
#ifndef SHAPE
#  define SHAPE 0
#endif

void harness(void)
{
  unsigned char a[16], b[16];
  char          text[INET6_ADDRSTRLEN];
  const char   *r;
  size_t        n = (AF == AF_INET) ? 4 : 16, i;
  int           rc;

  vp_bytes(a, n);
#if AF == AF_INET6
  /* zero-run shapes: bit i of SHAPE set => 16-bit group i is zero, clear => group i is non-zero (so the text layout
   * - where "::" goes - is fixed per job while the group values stay arbitrary) */
  for (i = 0; i < 8; i++) {
    if (SHAPE & (1 << i))
      VP_ASSUME(a[2 * i] == 0 && a[2 * i + 1] == 0);
    else
      VP_ASSUME(a[2 * i] != 0 || a[2 * i + 1] != 0);
  }
#endif
  memset(b, 0x5a, sizeof(b));
  r = ares_inet_ntop(AF, a, text, sizeof(text));
  VP_ASSERT(r == text, "every address has a text form that fits INET6_ADDRSTRLEN");
  for (i = 0; i < sizeof(text) && text[i] != 0; i++)
    ;
  VP_ASSERT(i < sizeof(text) && i >= 2, "the text form is NUL-terminated");
  rc = ares_inet_pton(AF, text, b);
  VP_ASSERT(rc == 1, "the text form of an address is accepted by the converter");
  for (i = 0; i < n; i++)
    VP_ASSERT(a[i] == b[i], "address -> text -> address is the identity");
  VP_WITNESS("end");
}
