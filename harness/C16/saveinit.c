/* C16 / c16_saveinit: ares_save_options(A) -> ares_init_by_options(B) is lossless for every option bit that is set,
 * never consults option fields whose bit is clear (the caller's struct may be uninitialised there), and
 * ares_destroy_options() releases everything ares_save_options() allocated.
 * Real: ares_options.c (ares_save_options, ares_init_by_options, ares_destroy_options, statics), ares_update_servers.c
 *       (ares_in_addr_to_sconfig_llist, ares_servers_update, ares_server_create ...), dsa/ares_llist.c, str/ares_str.c,
 *       ares_library_init.c.
 * Stubs: slist_ref.c (reference skip list), ares_qcache_flush (no-op), ares_destroy_server (frees the server record),
 *        ares_threadsafety (true), ares_uri_* / ares_buf (not reached: no server text involved).
 * Channel A: a REACHABLE configured state - what ares_init_by_options()/the setters can leave behind: optmask arbitrary
 *   except the legacy ARES_OPT_TIMEOUT bit (always converted), ARES_OPT_QUERY_CACHE always set, never EVENT_THREAD
 *   together with SOCK_STATE_CB; a set bit implies its validated value (timeout/tries/maxtimeout/ednspsz/
 *   udp_max_queries in 1..INT_MAX, ndots <= INT_MAX, buffer sizes > 0, lookups/paths non-NULL, ROTATE/NOROTATE consistent
 *   with the rotate flag); 0-1 search domains, 0-1 sortlist entries; exactly one server, IPv4 or IPv6, arbitrary address.
 * The options struct handed to ares_save_options() is filled with ARBITRARY bytes first (uninitialised caller memory). */
#include "vp.h"
#include "ares_private.h"
#include <limits.h>
#include <string.h>

void        ares_qcache_flush(ares_qcache_t *cache) { (void)cache; }
ares_bool_t ares_threadsafety(void) { return ARES_TRUE; }
void        ares_destroy_server(ares_server_t *server)
{
  if (server == NULL)
    return;
  /* the connection list of a never-used server is empty: release the list head directly (calling ares_llist_destroy
   * here would make every list destructor call site a candidate for recursion in the symbolic executor) */
  VP_ASSERT(ares_llist_len(server->connections) == 0, "harness: no connections on a configuration-only server");
  ares_free(server->connections);
  ares_free(server);
}
static void server_free_cb(void *arg) { ares_destroy_server(arg); }
static int  server_cmp(const void *a, const void *b)
{
  const ares_server_t *x = a, *y = b;
  return x->idx < y->idx ? -1 : (x->idx > y->idx ? 1 : 0);
}
static void sock_cb(void *data, ares_socket_t fd, int r, int w) { (void)data; (void)fd; (void)r; (void)w; }

static int str_eq(const char *a, const char *b)
{
  size_t i;
  if (a == NULL || b == NULL)
    return a == b;
  for (i = 0; i < 8; i++) {
    if (a[i] != b[i])
      return 0;
    if (a[i] == 0)
      return 1;
  }
  return 0;
}
static char *dup_or_die(const char *s)
{
  char *p = ares_strdup(s);
  VP_ASSUME(p != NULL);
  return p;
}
#define IN_INT(x) ((x) >= 1 && (x) <= (size_t)INT_MAX)

void harness(void)
{
  static ares_channel_t A, B;
  struct ares_options   opts;
  int                   mask = 0, have_v4;
  unsigned int          m;
  ares_server_t        *srv;
  ares_status_t         st;
  struct apattern       sort0;

  vp_alloc_install();

  /* ---- channel A ---- */
  m = vp_u32();
  VP_ASSUME(!(m & ARES_OPT_TIMEOUT) && (m & ARES_OPT_QUERY_CACHE));
  VP_ASSUME(!((m & ARES_OPT_EVENT_THREAD) && (m & ARES_OPT_SOCK_STATE_CB)));
  A.optmask = m;
  A.flags   = vp_u32();
  VP_ASSUME(A.flags <= (unsigned)INT_MAX); /* flags travel through an int; all defined flag bits are far below */
  A.timeout = vp_size();
  A.tries   = vp_size();
  VP_ASSUME(A.timeout > 0 && A.tries > 0); /* ARES_CONFIG_CHECK: a configured channel */
  if (m & ARES_OPT_TIMEOUTMS) VP_ASSUME(IN_INT(A.timeout));
  if (m & ARES_OPT_TRIES) VP_ASSUME(IN_INT(A.tries));
  A.ndots = vp_size();
  if (m & ARES_OPT_NDOTS) VP_ASSUME(A.ndots <= (size_t)INT_MAX);
  A.maxtimeout = vp_size();
  if (m & ARES_OPT_MAXTIMEOUTMS) VP_ASSUME(IN_INT(A.maxtimeout));
  A.rotate = vp_bool() ? ARES_TRUE : ARES_FALSE;
  if (m & ARES_OPT_NOROTATE) VP_ASSUME(A.rotate == ARES_FALSE);
  else if (m & ARES_OPT_ROTATE) VP_ASSUME(A.rotate == ARES_TRUE);
  A.udp_port = vp_u16();
  A.tcp_port = vp_u16();
  A.socket_send_buffer_size    = vp_int();
  A.socket_receive_buffer_size = vp_int();
  if (m & ARES_OPT_SOCK_SNDBUF) VP_ASSUME(A.socket_send_buffer_size > 0);
  if (m & ARES_OPT_SOCK_RCVBUF) VP_ASSUME(A.socket_receive_buffer_size > 0);
  A.ednspsz = vp_size();
  if (m & ARES_OPT_EDNSPSZ) VP_ASSUME(IN_INT(A.ednspsz));
  A.udp_max_queries = vp_size();
  if (m & ARES_OPT_UDP_MAX_QUERIES) VP_ASSUME(IN_INT(A.udp_max_queries));
  A.qcache_max_ttl      = vp_u32();
  A.server_retry_chance = vp_u16();
  A.server_retry_delay  = vp_size();
  A.evsys               = (ares_evsys_t)(vp_u8() % 6);
  if (vp_bool()) {
    A.sock_state_cb      = sock_cb;
    A.sock_state_cb_data = &A;
  }
  if (vp_bool()) {
    A.domains = ares_malloc_zero(sizeof(char *));
    VP_ASSUME(A.domains != NULL);
    A.domains[0] = dup_or_die("d.om");
    A.ndomains   = 1;
  }
  if (vp_bool()) {
    A.sortlist = ares_malloc_zero(sizeof(*A.sortlist));
    VP_ASSUME(A.sortlist != NULL);
    vp_bytes((unsigned char *)A.sortlist, sizeof(*A.sortlist));
    A.nsort = 1;
    sort0   = A.sortlist[0];
  }
  A.lookups = dup_or_die(vp_bool() ? "b" : "fb"); /* ARES_CONFIG_CHECK: always present on a configured channel */
  if ((m & ARES_OPT_RESOLVCONF) || vp_bool()) A.resolvconf_path = dup_or_die("/r");
  if ((m & ARES_OPT_HOSTS_FILE) || vp_bool()) A.hosts_path = dup_or_die("/h");
  A.servers = ares_slist_create(NULL, server_cmp, server_free_cb);
  srv       = ares_malloc_zero(sizeof(*srv));
  VP_ASSUME(A.servers != NULL && srv != NULL);
  have_v4          = vp_bool();
  srv->addr.family = have_v4 ? AF_INET : AF_INET6;
  vp_bytes((unsigned char *)&srv->addr.addr, have_v4 ? 4 : 16);
  srv->channel = &A;
  VP_ASSUME(ares_slist_insert(A.servers, srv) != NULL);

  /* ---- save ---- */
  vp_bytes((unsigned char *)&opts, sizeof(opts)); /* caller memory is not initialised */
  st = (ares_status_t)ares_save_options(&A, &opts, &mask);
  VP_ASSERT(st == ARES_SUCCESS, "saving the options of a configured channel succeeds");
  VP_ASSERT((unsigned int)mask == A.optmask, "the saved mask is the channel's record of explicit options");

  /* ---- init a fresh channel from the saved options ---- */
  B.ndots   = 1; /* as ares_init_options() */
  B.servers = ares_slist_create(NULL, server_cmp, server_free_cb);
  VP_ASSUME(B.servers != NULL);
  st = ares_init_by_options(&B, &opts, mask);
  VP_ASSERT(st == ARES_SUCCESS, "options saved from a channel are accepted by initialisation");

  if (m & ARES_OPT_FLAGS) VP_ASSERT(B.flags == A.flags, "ARES_OPT_FLAGS survives save/init");
  else VP_ASSERT(B.flags == 0, "flags field not consulted without ARES_OPT_FLAGS");
  if (m & ARES_OPT_TIMEOUTMS) VP_ASSERT(B.timeout == A.timeout, "ARES_OPT_TIMEOUTMS survives save/init");
  else VP_ASSERT(B.timeout == 0, "timeout field not consulted without its bit");
  if (m & ARES_OPT_TRIES) VP_ASSERT(B.tries == A.tries, "ARES_OPT_TRIES survives save/init");
  else VP_ASSERT(B.tries == 0, "tries field not consulted without its bit");
  if (m & ARES_OPT_NDOTS) VP_ASSERT(B.ndots == A.ndots, "ARES_OPT_NDOTS survives save/init");
  else VP_ASSERT(B.ndots == 1, "ndots field not consulted without its bit");
  if (m & ARES_OPT_MAXTIMEOUTMS) VP_ASSERT(B.maxtimeout == A.maxtimeout, "ARES_OPT_MAXTIMEOUTMS survives save/init");
  else VP_ASSERT(B.maxtimeout == 0, "maxtimeout field not consulted without its bit");
  if (m & (ARES_OPT_ROTATE | ARES_OPT_NOROTATE)) VP_ASSERT(B.rotate == A.rotate, "rotate choice survives save/init");
  if (m & ARES_OPT_UDP_PORT) VP_ASSERT(B.udp_port == A.udp_port, "ARES_OPT_UDP_PORT survives save/init");
  else VP_ASSERT(B.udp_port == 0, "udp_port field not consulted without its bit");
  if (m & ARES_OPT_TCP_PORT) VP_ASSERT(B.tcp_port == A.tcp_port, "ARES_OPT_TCP_PORT survives save/init");
  else VP_ASSERT(B.tcp_port == 0, "tcp_port field not consulted without its bit");
  if (m & ARES_OPT_SOCK_STATE_CB)
    VP_ASSERT(B.sock_state_cb == A.sock_state_cb && B.sock_state_cb_data == A.sock_state_cb_data, "socket state callback survives save/init");
  else VP_ASSERT(B.sock_state_cb == NULL, "socket state callback not consulted without its bit");
  if (m & ARES_OPT_SOCK_SNDBUF) VP_ASSERT(B.socket_send_buffer_size == A.socket_send_buffer_size, "ARES_OPT_SOCK_SNDBUF survives save/init");
  else VP_ASSERT(B.socket_send_buffer_size == 0, "send buffer size not consulted without its bit");
  if (m & ARES_OPT_SOCK_RCVBUF) VP_ASSERT(B.socket_receive_buffer_size == A.socket_receive_buffer_size, "ARES_OPT_SOCK_RCVBUF survives save/init");
  else VP_ASSERT(B.socket_receive_buffer_size == 0, "receive buffer size not consulted without its bit");
  if (m & ARES_OPT_EDNSPSZ) VP_ASSERT(B.ednspsz == A.ednspsz, "ARES_OPT_EDNSPSZ survives save/init");
  else VP_ASSERT(B.ednspsz == 0, "ednspsz field not consulted without its bit");
  if (m & ARES_OPT_UDP_MAX_QUERIES) VP_ASSERT(B.udp_max_queries == A.udp_max_queries, "ARES_OPT_UDP_MAX_QUERIES survives save/init");
  else VP_ASSERT(B.udp_max_queries == 0, "udp_max_queries field not consulted without its bit");
  VP_ASSERT(B.qcache_max_ttl == A.qcache_max_ttl, "ARES_OPT_QUERY_CACHE (always recorded) survives save/init");
  if (m & ARES_OPT_EVENT_THREAD) VP_ASSERT(B.evsys == A.evsys, "ARES_OPT_EVENT_THREAD event system survives save/init");
  if (m & ARES_OPT_SERVER_FAILOVER)
    VP_ASSERT(B.server_retry_chance == A.server_retry_chance && B.server_retry_delay == A.server_retry_delay, "ARES_OPT_SERVER_FAILOVER survives save/init");
  else VP_ASSERT(B.server_retry_chance == 0 && B.server_retry_delay == 0, "failover fields not consulted without their bit");
  if (m & ARES_OPT_DOMAINS) {
    VP_ASSERT(B.ndomains == A.ndomains && (A.ndomains == 0 || (B.domains != NULL && B.domains != A.domains && str_eq(B.domains[0], "d.om"))),
              "ARES_OPT_DOMAINS: the search list survives save/init as a separate copy");
  } else {
    VP_ASSERT(B.domains == NULL && B.ndomains == 0, "domains not consulted without their bit");
  }
  if (m & ARES_OPT_LOOKUPS) VP_ASSERT(B.lookups != A.lookups && str_eq(B.lookups, A.lookups), "ARES_OPT_LOOKUPS survives save/init");
  else VP_ASSERT(B.lookups == NULL, "lookups not consulted without their bit");
  if (m & ARES_OPT_SORTLIST) {
    VP_ASSERT(B.nsort == A.nsort && (A.nsort == 0 || (B.sortlist != NULL && B.sortlist != A.sortlist && B.sortlist[0].mask == sort0.mask &&
                                                       B.sortlist[0].addr.family == sort0.addr.family &&
                                                       memcmp(&B.sortlist[0].addr.addr, &sort0.addr.addr, 16) == 0)),
              "ARES_OPT_SORTLIST: the sortlist survives save/init as a separate copy");
  } else {
    VP_ASSERT(B.sortlist == NULL && B.nsort == 0, "sortlist not consulted without its bit");
  }
  if (m & ARES_OPT_RESOLVCONF) VP_ASSERT(str_eq(B.resolvconf_path, "/r"), "ARES_OPT_RESOLVCONF path survives save/init");
  else VP_ASSERT(B.resolvconf_path == NULL, "resolvconf path not consulted without its bit");
  if (m & ARES_OPT_HOSTS_FILE) VP_ASSERT(str_eq(B.hosts_path, "/h"), "ARES_OPT_HOSTS_FILE path survives save/init");
  else VP_ASSERT(B.hosts_path == NULL, "hosts path not consulted without its bit");
  if ((m & ARES_OPT_SERVERS) && have_v4) {
    const ares_server_t *b = ares_slist_first_val(B.servers);
    VP_ASSERT(ares_slist_len(B.servers) == 1 && b != NULL && b->addr.family == AF_INET &&
                memcmp(&b->addr.addr.addr4, &srv->addr.addr.addr4, 4) == 0,
              "ARES_OPT_SERVERS: the IPv4 server survives save/init");
    VP_ASSERT(b->udp_port == (((m & ARES_OPT_UDP_PORT) && A.udp_port) ? A.udp_port : 53) &&
                b->tcp_port == (((m & ARES_OPT_TCP_PORT) && A.tcp_port) ? A.tcp_port : 53),
              "re-created server uses the channel's explicit ports, else 53");
    VP_ASSERT(B.optmask == A.optmask, "every explicit option of A is recorded as explicit on B");
    VP_WITNESS("server re-created");
  } else {
    VP_ASSERT(ares_slist_len(B.servers) == 0, "no server is invented");
    /* legacy struct carries IPv4 only: an IPv6-only explicit list loses its bit here (ares_dup re-applies it as text) */
    VP_ASSERT(B.optmask == (A.optmask & ~(unsigned int)((m & ARES_OPT_SERVERS) ? ARES_OPT_SERVERS : 0)),
              "every explicit option of A (but an IPv6-only server list) is recorded as explicit on B");
  }
  if (m == (unsigned int)ARES_OPT_QUERY_CACHE) VP_WITNESS("no explicit option");
  if ((m & (ARES_OPT_DOMAINS | ARES_OPT_SORTLIST | ARES_OPT_LOOKUPS)) == (ARES_OPT_DOMAINS | ARES_OPT_SORTLIST | ARES_OPT_LOOKUPS) && A.ndomains && A.nsort)
    VP_WITNESS("domains sortlist lookups copied");

  /* ---- release ---- */
  ares_destroy_options(&opts);
  ares_slist_destroy(A.servers);
  ares_slist_destroy(B.servers);
  if (A.domains) ares_strsplit_free(A.domains, A.ndomains);
  if (B.domains) ares_strsplit_free(B.domains, B.ndomains);
  ares_free(A.sortlist); ares_free(B.sortlist);
  ares_free(A.lookups); ares_free(B.lookups);
  ares_free(A.resolvconf_path); ares_free(B.resolvconf_path);
  ares_free(A.hosts_path); ares_free(B.hosts_path);
  VP_ASSERT(vp_alloc_live == 0, "ares_destroy_options releases everything ares_save_options allocated");
  VP_WITNESS("end");
}
