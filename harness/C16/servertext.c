/* C16 / c16_servertext: a server rendered as text by ares_get_server_addr() and fed back through
 * ares_sconfig_append_fromstr() (what ares_get_servers_csv()/ares_set_servers_ports_csv() and ares_dup() do)
 * reproduces address, both ports and the link-local interface.
 * Real: ares_update_servers.c (TU included), str/ares_buf.c, str/ares_str.c, inet_ntop.c, inet_net_pton.c,
 *       ares_hosts_file.c (ares_dns_pton only), dsa/ares_llist.c, util/ares_math.c, ares_library_init.c.
 * Stubs: ares_array = array_ref.c, snprintf = libc_extra.c, ares_uri_parse_buf = "not a URI" (udp and tcp port are
 *        equal here, so the dns:// form is never produced: OUTSIDE), aif_nametoindex = fixed non-zero scope.
 * The ADDRESS is concrete per job (text length depends on it; the value-generic part is c16_ntop_pton_*), the PORT is
 * arbitrary (all 2^16, equal for UDP and TCP), the interface name is concrete per job (link-local IPv6 only). */
#include "vp.h"
#include "ares_update_servers.c"

#ifndef FAMILY
#  define FAMILY AF_INET
#endif
#ifndef ADDR
#  define ADDR 1, 2, 3, 4
#endif
#ifndef IFACE
#  define IFACE ""
#endif

ares_status_t ares_uri_parse_buf(ares_uri_t **out, ares_buf_t *buf)
{
  (void)buf;
  *out = NULL;
  return ARES_EBADSTR;
}
static unsigned int nametoindex(const char *ifname, void *ud)
{
  (void)ud;
  (void)ifname;
  return 7;
}

void harness(void)
{
  static const unsigned char addr[] = { ADDR };
  static ares_channel_t      ch;
  static ares_server_t       sv;
  ares_buf_t                *buf;
  char                      *text;
  size_t                     len = 0, i;
  ares_llist_t              *list = NULL;
  const ares_sconfig_t      *s;
  unsigned short             port = vp_u16();
  ares_status_t              st;

  vp_alloc_install();
  ch.sock_funcs.aif_nametoindex = nametoindex;
  sv.addr.family = FAMILY;
  memcpy(&sv.addr.addr, addr, sizeof(addr));
  sv.udp_port = port;
  sv.tcp_port = port;
  ares_strcpy(sv.ll_iface, IFACE, sizeof(sv.ll_iface));

  buf = ares_buf_create();
  VP_ASSUME(buf != NULL);
  st = ares_get_server_addr(&sv, buf);
  VP_ASSERT(st == ARES_SUCCESS, "a configured server can be rendered as text");
  text = ares_buf_finish_str(buf, &len);
  VP_ASSERT(text != NULL && text[len] == 0 && len >= 9, "rendered server text is a NUL-terminated string");

  st = ares_sconfig_append_fromstr(&ch, &list, text, ARES_FALSE);
  VP_ASSERT(st == ARES_SUCCESS, "the rendered text is accepted by the setter (strict mode)");
  VP_ASSERT(ares_llist_len(list) == 1, "the rendered text yields exactly one server");
  s = ares_llist_first_val(list);
  VP_ASSERT(s != NULL && ares_addr_match(&s->addr, &sv.addr), "address survives the text round trip");
  VP_ASSERT(s->udp_port == port && s->tcp_port == port, "both ports survive the text round trip");
  for (i = 0; i < sizeof(IFACE); i++)
    VP_ASSERT(s->ll_iface[i] == IFACE[i], "link-local interface survives the text round trip");
  if (sizeof(IFACE) > 1) VP_ASSERT(s->ll_scope == 7, "link-local scope is resolved again");
  if (port == 0) VP_WITNESS("port zero");
  if (port >= 10000) VP_WITNESS("five-digit port");

  ares_llist_destroy(list);
  ares_free(text);
  VP_ASSERT(vp_alloc_live == 0, "nothing leaks");
  VP_WITNESS("end");
}
