/* C16 / c16_servertext: a server rendered as text by ares_get_server_addr() and fed back through
 * ares_sconfig_append_fromstr() (what ares_get_servers_csv()/ares_set_servers_ports_csv() and ares_dup() do)
 * reproduces address, both ports and the link-local interface.
 * Real: ares_update_servers.c (TU included), str/ares_buf.c, str/ares_str.c, inet_ntop.c, inet_net_pton.c,
 *       ares_hosts_file.c (ares_dns_pton only), dsa/ares_llist.c, util/ares_math.c, ares_library_init.c.
 * Stubs: ares_array = array_ref.c, snprintf = libc_extra.c, ares_uri_parse_buf = "not a URI" (udp and tcp port are
 *        equal here, so the dns:// form is never produced: OUTSIDE), aif_nametoindex = fixed non-zero scope.
 * The ADDRESS is concrete per job (text length depends on it; the value-generic part is c16_ntop_pton_*), the PORT is
 * arbitrary (equal for UDP and TCP), the interface name is concrete per job (link-local IPv6 only).
 * A symbolic port makes the write position of every later byte symbolic, after which the symbolic executor no longer
 * sees the address text as constant and the parser side explodes (measured: no verdict in 240 s).  The round trip is
 * therefore proved in two halves that meet at an explicit text model M(server) = ADDRTEXT ":" decimal(port) ["%" iface]:
 *   MODE 0 (render): real ares_get_server_addr(server) == M(server), all 2^16 ports in one job;
 *   MODE 1 (parse):  real ares_sconfig_append_fromstr(M(server)) reproduces the server; the digit COUNT of the port is
 *                    concrete per job (-DD=1..5: 0-9, 10-99, 100-999, 1000-9999, 10000-65535), the digits arbitrary. */
#include "vp.h"
#include "ares_update_servers.c"
#ifndef MODE
#  define MODE 0
#endif
#define MODE_IS_PARSE (MODE == 1)

#ifndef FAMILY
#  define FAMILY AF_INET
#endif
#ifndef ADDR
#  define ADDR 1, 2, 3, 4
#endif
#ifndef IFACE
#  define IFACE ""
#endif

ares_status_t ares_uri_parse_buf(ares_uri_t **out, ares_buf_t *buf)
{
  (void)buf;
  *out = NULL;
  return ARES_EBADSTR;
}
#if MODE_IS_PARSE
/* MODE 1: the converter is replaced by a recorder that accepts exactly ADDRTEXT (returning the server's address bytes)
 * and rejects every other text: the assertion below then says the parser isolated exactly the address text.  That
 * the REAL converter maps ADDRTEXT to ADDR is c16_ntop_pton_* (real inet_ntop -> real inet_pton identity). */
static int pton_hits;
int ares_inet_pton(int af, const char *src, void *dst)
{
  static const char          at[]   = ADDRTEXT;
  static const unsigned char addr[] = { ADDR };
  size_t                     i;
  for (i = 0; i < sizeof(at); i++)
    if (src[i] != at[i])
      return 0;
  if (af != FAMILY)
    return 0;
  for (i = 0; i < sizeof(addr); i++)
    ((unsigned char *)dst)[i] = addr[i];
  pton_hits++;
  return 1;
}
#endif

static unsigned int nametoindex(const char *ifname, void *ud)
{
  (void)ud;
  (void)ifname;
  return 7;
}

#ifndef MODE
#  define MODE 0
#endif
#ifndef ADDRTEXT
#  define ADDRTEXT "1.2.3.4" /* what ares_inet_ntop gives for ADDR; checked against the real one in MODE 0 */
#endif
#ifndef D
#  define D 0
#endif

/* M(server): D == 0 => as many digits as the value needs */
static size_t model_text(char *out, unsigned short port)
{
  static const char at[] = ADDRTEXT;
  static const char ifn[] = IFACE;
  size_t            n = 0, i, nd;
  unsigned          div;
  if (FAMILY == AF_INET6) out[n++] = '[';
  for (i = 0; i < sizeof(at) - 1; i++) out[n++] = at[i];
  if (FAMILY == AF_INET6) out[n++] = ']';
  out[n++] = ':';
#if D == 0
  nd = port >= 10000 ? 5 : port >= 1000 ? 4 : port >= 100 ? 3 : port >= 10 ? 2 : 1;
#else
  nd = D;
#endif
  div = nd == 5 ? 10000 : nd == 4 ? 1000 : nd == 3 ? 100 : nd == 2 ? 10 : 1;
  for (i = 0; i < nd; i++) {
    out[n++] = (char)('0' + (port / div) % 10);
    div /= 10;
  }
  if (sizeof(ifn) > 1) {
    out[n++] = '%';
    for (i = 0; i < sizeof(ifn) - 1; i++) out[n++] = ifn[i];
  }
  out[n] = 0;
  return n;
}

void harness(void)
{
  static const unsigned char addr[] = { ADDR };
  static ares_channel_t      ch;
  static ares_server_t       sv;
  ares_buf_t                *buf;
  char                      *text;
  size_t                     len = 0, i;
  ares_llist_t              *list = NULL;
  const ares_sconfig_t      *s;
  unsigned short             port = vp_u16();
  ares_status_t              st;

  vp_alloc_install();
  ch.sock_funcs.aif_nametoindex = nametoindex;
  sv.addr.family = FAMILY;
  memcpy(&sv.addr.addr, addr, sizeof(addr));
  sv.udp_port = port;
  sv.tcp_port = port;
  ares_strcpy(sv.ll_iface, IFACE, sizeof(sv.ll_iface));

#if MODE == 0
  {
    char   model[96];
    size_t ml = model_text(model, port);
    buf = ares_buf_create();
    VP_ASSUME(buf != NULL);
    st = ares_get_server_addr(&sv, buf);
    VP_ASSERT(st == ARES_SUCCESS, "a configured server can be rendered as text");
    text = ares_buf_finish_str(buf, &len);
    VP_ASSERT(text != NULL && len == ml, "rendered server text has the length of ADDR:PORT[%IFACE]");
    for (i = 0; i <= ml; i++)
      VP_ASSERT(text[i] == model[i], "rendered server text is ADDR:PORT[%IFACE] (address as inet_ntop, port in decimal)");
    if (port == 0) VP_WITNESS("port zero");
    if (port >= 10000) VP_WITNESS("five-digit port");
    ares_free(text);
    (void)list; (void)s;
  }
#else
#  if D == 1
  VP_ASSUME(port <= 9);
#  elif D == 2
  VP_ASSUME(port >= 10 && port <= 99);
#  elif D == 3
  VP_ASSUME(port >= 100 && port <= 999);
#  elif D == 4
  VP_ASSUME(port >= 1000 && port <= 9999);
#  else
  VP_ASSUME(port >= 10000);
#  endif
  text = ares_malloc(96);
  VP_ASSUME(text != NULL);
  len = model_text(text, port);
  (void)buf;
  st = ares_sconfig_append_fromstr(&ch, &list, text, ARES_FALSE);
  VP_ASSERT(st == ARES_SUCCESS, "the rendered text is accepted by the setter (strict mode)");
  VP_ASSERT(ares_llist_len(list) == 1, "the rendered text yields exactly one server");
#if MODE_IS_PARSE
  VP_ASSERT(pton_hits >= 1, "the parser hands exactly the address text to the converter");
#endif
  s = ares_llist_first_val(list);
  VP_ASSERT(s != NULL && ares_addr_match(&s->addr, &sv.addr), "address survives the text round trip");
  VP_ASSERT(s->udp_port == port && s->tcp_port == port, "both ports survive the text round trip");
  for (i = 0; i < sizeof(IFACE); i++)
    VP_ASSERT(s->ll_iface[i] == IFACE[i], "link-local interface survives the text round trip");
  if (sizeof(IFACE) > 1) VP_ASSERT(s->ll_scope == 7, "link-local scope is resolved again");
  ares_llist_destroy(list);
  ares_free(text);
#endif
  VP_ASSERT(vp_alloc_live == 0, "nothing leaks");
  VP_WITNESS("end");
}
