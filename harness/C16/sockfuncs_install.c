/* C16 "... the same ordered server list (addresses, per-protocol ports, LINK-LOCAL INTERFACE)": a link-local server
 * (fe80::/10) can only be configured, kept and rendered when the channel can translate interface names and indexes,
 * which it does through the socket-function table (members aif_nametoindex / aif_indextoname, documented in
 * ares_set_socket_functions(3)); ares_sconfig_append() REFUSES every link-local server when they are missing.
 * ONE real ares_set_socket_functions_ex() with a version-1 table whose ten members are ten distinct functions:
 * every member the application (or the library's own default table, installed the same way at channel creation)
 * supplied must be the one the channel will call; the user data is stored; a table without a mandatory member is
 * refused and leaves the lock balanced.
 * Real: ares_set_socket_functions.c.  Lock = ghost (lock_ghost.c). */
#include "vp.h"
#include "ares_private.h"

extern int vp_lock_depth;

static ares_socket_t f_socket(int d, int t, int p, void *u) { (void)d; (void)t; (void)p; (void)u; return 0; }
static int           f_close(ares_socket_t s, void *u) { (void)s; (void)u; return 0; }
static int           f_setsockopt(ares_socket_t s, ares_socket_opt_t o, const void *v, ares_socklen_t l, void *u) { (void)s; (void)o; (void)v; (void)l; (void)u; return 0; }
static int           f_connect(ares_socket_t s, const struct sockaddr *a, ares_socklen_t l, unsigned int f, void *u) { (void)s; (void)a; (void)l; (void)f; (void)u; return 0; }
static ares_ssize_t  f_recvfrom(ares_socket_t s, void *b, size_t n, int f, struct sockaddr *a, ares_socklen_t *l, void *u) { (void)s; (void)b; (void)n; (void)f; (void)a; (void)l; (void)u; return 0; }
static ares_ssize_t  f_sendto(ares_socket_t s, const void *b, size_t n, int f, const struct sockaddr *a, ares_socklen_t l, void *u) { (void)s; (void)b; (void)n; (void)f; (void)a; (void)l; (void)u; return 0; }
static int           f_getsockname(ares_socket_t s, struct sockaddr *a, ares_socklen_t *l, void *u) { (void)s; (void)a; (void)l; (void)u; return 0; }
static int           f_bind(ares_socket_t s, unsigned int f, const struct sockaddr *a, socklen_t l, void *u) { (void)s; (void)f; (void)a; (void)l; (void)u; return 0; }
static unsigned int  f_nametoindex(const char *n, void *u) { (void)n; (void)u; return 1; }
static const char   *f_indextoname(unsigned int i, char *b, size_t l, void *u) { (void)i; (void)l; (void)u; return b; }

void harness(void)
{
  static ares_channel_t            ch;
  struct ares_socket_functions_ex  t;
  int                              ud;
  ares_status_t                    st;
  int                              drop = (int)vp_range(0, 6); /* 0 = complete table, 1..6 = that mandatory member missing */

  memset(&t, 0, sizeof(t));
  t.version         = 1;
  t.flags           = vp_u32();
  t.asocket         = drop == 1 ? NULL : f_socket;
  t.aclose          = drop == 2 ? NULL : f_close;
  t.asetsockopt     = drop == 3 ? NULL : f_setsockopt;
  t.aconnect        = drop == 4 ? NULL : f_connect;
  t.arecvfrom       = drop == 5 ? NULL : f_recvfrom;
  t.asendto         = drop == 6 ? NULL : f_sendto;
  t.agetsockname    = f_getsockname;
  t.abind           = f_bind;
  t.aif_nametoindex = f_nametoindex;
  t.aif_indextoname = f_indextoname;

  st = ares_set_socket_functions_ex(&ch, &t, &ud);

  VP_ASSERT(vp_lock_depth == 0, "channel lock balanced on every path");
  if (drop != 0) {
    VP_ASSERT(st == ARES_EFORMERR, "a table without a mandatory member is refused");
    VP_WITNESS("refused");
  } else {
    VP_ASSERT(st == ARES_SUCCESS, "a complete table is installed");
    VP_ASSERT(ch.sock_funcs.asocket == f_socket && ch.sock_funcs.aclose == f_close && ch.sock_funcs.asetsockopt == f_setsockopt &&
                ch.sock_funcs.aconnect == f_connect && ch.sock_funcs.arecvfrom == f_recvfrom && ch.sock_funcs.asendto == f_sendto,
              "the mandatory members installed are the application's");
    VP_ASSERT(ch.sock_funcs.agetsockname == f_getsockname && ch.sock_funcs.abind == f_bind, "the optional socket members installed are the application's");
    VP_ASSERT(ch.sock_funcs.aif_nametoindex == f_nametoindex && ch.sock_funcs.aif_indextoname == f_indextoname,
              "FINDING sockfuncs_aif_not_installed: the interface name/index members are installed too (without them every link-local server is refused)");
    VP_ASSERT(ch.sock_funcs.flags == t.flags && ch.sock_func_cb_data == &ud, "flags and user data stored");
    VP_WITNESS("installed");
  }
  VP_WITNESS("end");
}
