/* C16 / c16_userwins: ares_sysconfig_apply() - the single place where system configuration (resolv.conf & co,
 * environment) is written into a channel, at initialisation AND at every reinit (ares_reinit ->
 * ares_init_by_sysconfig -> ares_sysconfig_apply) - never overrides a setting the application supplied explicitly.
 * Real: ares_sysconfig.c (TU included: static ares_sysconfig_apply), str/ares_str.c, str/ares_strsplit.c
 *       (ares_strsplit_duplicate / _free), ares_library_init.c.
 * Stubs: ares_servers_update() = recorder (its own behaviour is c16_servertext / C09 territory).
 * State: channel with ARBITRARY optmask (except the legacy ARES_OPT_TIMEOUT bit, which ares_init_by_options always
 *   converts to ARES_OPT_TIMEOUTMS) and arbitrary scalar settings, 0-1 search domains, 0-1 sortlist entries, lookups
 *   NULL/"b"/"fb"; sysconfig with arbitrary scalars, 0-1 domains, 0-1 sortlist entries, lookups NULL/"f"/"bf",
 *   server list present or not.
 * Oracle: for EVERY option bit that is set the corresponding channel field is unchanged (pointer, count and content);
 *   for a clear bit the field takes the sysconfig value when sysconfig provides one (tries/timeout 0 and NULL
 *   pointers mean "not provided"); the replaced domain list / lookups / sortlist are released (leak check);
 *   optmask itself and unrelated settings are untouched.
 * c16_usevc_flags: "options use-vc" must not change flags the application set through ARES_OPT_FLAGS
 *   (selectors KF_c16_usevc_flags / KFONLY_c16_usevc_flags). */
#include "vp.h"
#include "ares_sysconfig.c"

static int            upd_calls;
static ares_llist_t  *upd_list;
static ares_bool_t    upd_user;
static ares_status_t  upd_ret;

ares_status_t ares_servers_update(ares_channel_t *channel, ares_llist_t *server_list, ares_bool_t user_specified)
{
  (void)channel;
  upd_calls++;
  upd_list = server_list;
  upd_user = user_specified;
  return upd_ret;
}

static int str_eq(const char *a, const char *b)
{
  size_t i;
  if (a == NULL || b == NULL)
    return a == b;
  for (i = 0; i < 8; i++) {
    if (a[i] != b[i])
      return 0;
    if (a[i] == 0)
      return 1;
  }
  return 0;
}

static char *dup_or_die(const char *s)
{
  char *p = ares_strdup(s);
  VP_ASSUME(p != NULL);
  return p;
}

void harness(void)
{
  static ares_channel_t ch;
  static int            dummy_list;
  ares_sysconfig_t      sc;
  ares_channel_t        pre;
  struct apattern       pre_sort, sc_sort;
  ares_status_t         st;
  unsigned              sel;

  vp_alloc_install();
  memset(&sc, 0, sizeof(sc));

  /* ---- channel: arbitrary explicit settings ---- */
  ch.optmask = vp_u32();
  VP_ASSUME(!(ch.optmask & ARES_OPT_TIMEOUT));
  ch.flags   = vp_u32();
  ch.timeout = vp_size();
  ch.tries   = vp_size();
  ch.ndots   = vp_size();
  ch.rotate  = vp_bool() ? ARES_TRUE : ARES_FALSE;
  ch.udp_port = vp_u16();
  ch.tcp_port = vp_u16();
  if (vp_bool()) {
    ch.domains    = ares_malloc_zero(sizeof(char *));
    VP_ASSUME(ch.domains != NULL);
    ch.domains[0] = dup_or_die("u.sr");
    ch.ndomains   = 1;
  }
  if (vp_bool()) {
    ch.sortlist = ares_malloc_zero(sizeof(*ch.sortlist));
    VP_ASSUME(ch.sortlist != NULL);
    vp_bytes((unsigned char *)ch.sortlist, sizeof(*ch.sortlist));
    ch.nsort = 1;
    pre_sort = ch.sortlist[0];
  }
  sel = vp_u8() % 3;
  ch.lookups = sel == 0 ? NULL : dup_or_die(sel == 1 ? "b" : "fb");

  /* ---- system configuration: arbitrary ---- */
  sc.ndots      = vp_size();
  sc.tries      = vp_size();
  sc.timeout_ms = vp_size();
  sc.rotate     = vp_bool() ? ARES_TRUE : ARES_FALSE;
  sc.usevc      = vp_bool() ? ARES_TRUE : ARES_FALSE;
  if (vp_bool()) {
    sc.domains    = ares_malloc_zero(sizeof(char *));
    VP_ASSUME(sc.domains != NULL);
    sc.domains[0] = dup_or_die("s.ys");
    sc.ndomains   = 1;
  }
  if (vp_bool()) {
    sc.sortlist = ares_malloc_zero(sizeof(*sc.sortlist));
    VP_ASSUME(sc.sortlist != NULL);
    vp_bytes((unsigned char *)sc.sortlist, sizeof(*sc.sortlist));
    sc.nsortlist = 1;
    sc_sort      = sc.sortlist[0];
  }
  sel = vp_u8() % 3;
  sc.lookups = sel == 0 ? NULL : dup_or_die(sel == 1 ? "f" : "bf");
  sc.sconfig = vp_bool() ? (ares_llist_t *)&dummy_list : NULL;
  upd_ret    = vp_bool() ? ARES_SUCCESS : ARES_ENOMEM;

#ifdef KF_c16_usevc_flags
  VP_ASSUME(!(sc.usevc && (ch.optmask & ARES_OPT_FLAGS) && !(ch.flags & ARES_FLAG_USEVC)));
#endif
#ifdef KFONLY_c16_usevc_flags
  VP_ASSUME(sc.usevc && (ch.optmask & ARES_OPT_FLAGS) && !(ch.flags & ARES_FLAG_USEVC));
#endif

  pre = ch;
  st  = ares_sysconfig_apply(&ch, &sc);

  VP_ASSERT(st == ARES_SUCCESS || st == ARES_ENOMEM, "apply returns success or out-of-memory");
  VP_ASSERT(ch.optmask == pre.optmask, "applying system configuration never alters the record of explicit options");
  VP_ASSERT(ch.udp_port == pre.udp_port && ch.tcp_port == pre.tcp_port, "ports are not a system-configuration item");

  /* servers */
  if (pre.optmask & ARES_OPT_SERVERS) {
    VP_ASSERT(upd_calls == 0, "ARES_OPT_SERVERS: system servers never replace application servers");
  } else if (sc.sconfig != NULL) {
    VP_ASSERT(upd_calls == 1 && upd_list == sc.sconfig && upd_user == ARES_FALSE, "system servers are applied as not-user-specified");
    VP_WITNESS("servers applied");
  } else {
    VP_ASSERT(upd_calls == 0, "no system servers: server list untouched");
  }

  if (st == ARES_SUCCESS) {
    /* domains */
    if ((pre.optmask & ARES_OPT_DOMAINS) || sc.domains == NULL) {
      VP_ASSERT(ch.domains == pre.domains && ch.ndomains == pre.ndomains, "ARES_OPT_DOMAINS: application search domains are kept");
      if (ch.domains != NULL) VP_ASSERT(str_eq(ch.domains[0], "u.sr"), "kept search domain text is intact");
    } else {
      VP_ASSERT(ch.domains != NULL && ch.domains != sc.domains && ch.ndomains == 1 && str_eq(ch.domains[0], "s.ys"),
                "without ARES_OPT_DOMAINS the system search list is copied into the channel");
      VP_WITNESS("domains applied");
    }
    /* lookups */
    if ((pre.optmask & ARES_OPT_LOOKUPS) || sc.lookups == NULL) {
      VP_ASSERT(ch.lookups == pre.lookups, "ARES_OPT_LOOKUPS: application lookup order is kept");
    } else {
      VP_ASSERT(ch.lookups != sc.lookups && str_eq(ch.lookups, sc.lookups), "without ARES_OPT_LOOKUPS the system lookup order is copied");
      VP_WITNESS("lookups applied");
    }
    /* sortlist */
    if ((pre.optmask & ARES_OPT_SORTLIST) || sc.sortlist == NULL) {
      VP_ASSERT(ch.sortlist == pre.sortlist && ch.nsort == pre.nsort, "ARES_OPT_SORTLIST: application sortlist is kept");
      if (ch.sortlist != NULL)
        VP_ASSERT(ch.sortlist[0].mask == pre_sort.mask && ch.sortlist[0].addr.family == pre_sort.addr.family, "kept sortlist entry is intact");
    } else {
      VP_ASSERT(ch.sortlist != NULL && ch.sortlist != sc.sortlist && ch.nsort == 1 && ch.sortlist[0].mask == sc_sort.mask &&
                  ch.sortlist[0].addr.family == sc_sort.addr.family,
                "without ARES_OPT_SORTLIST the system sortlist is copied");
      VP_WITNESS("sortlist applied");
    }
    /* scalars */
    if (pre.optmask & ARES_OPT_NDOTS) {
      VP_ASSERT(ch.ndots == pre.ndots, "ARES_OPT_NDOTS: application ndots is kept");
    } else {
      VP_ASSERT(ch.ndots == sc.ndots, "without ARES_OPT_NDOTS the system ndots applies");
    }
    if ((pre.optmask & ARES_OPT_TRIES) || sc.tries == 0) {
      VP_ASSERT(ch.tries == pre.tries, "ARES_OPT_TRIES: application try count is kept");
    } else {
      VP_ASSERT(ch.tries == sc.tries, "without ARES_OPT_TRIES the system try count applies");
    }
    if ((pre.optmask & ARES_OPT_TIMEOUTMS) || sc.timeout_ms == 0) {
      VP_ASSERT(ch.timeout == pre.timeout, "ARES_OPT_TIMEOUTMS: application timeout is kept");
    } else {
      VP_ASSERT(ch.timeout == sc.timeout_ms, "without ARES_OPT_TIMEOUTMS the system timeout applies");
    }
    if (pre.optmask & (ARES_OPT_ROTATE | ARES_OPT_NOROTATE)) {
      VP_ASSERT(ch.rotate == pre.rotate, "ARES_OPT_ROTATE/NOROTATE: application rotate choice is kept");
    } else {
      VP_ASSERT(ch.rotate == sc.rotate, "without a rotate option the system rotate setting applies");
    }
    if (pre.optmask & ARES_OPT_FLAGS) {
      VP_ASSERT(ch.flags == pre.flags, "c16_usevc_flags: ARES_OPT_FLAGS: application flags are kept (use-vc from resolv.conf must not add ARES_FLAG_USEVC)");
    } else {
      VP_ASSERT(ch.flags == (pre.flags | (sc.usevc ? ARES_FLAG_USEVC : 0u)), "without ARES_OPT_FLAGS use-vc adds ARES_FLAG_USEVC and nothing else");
    }
    if ((pre.optmask & (ARES_OPT_NDOTS | ARES_OPT_TRIES | ARES_OPT_TIMEOUTMS)) == (ARES_OPT_NDOTS | ARES_OPT_TRIES | ARES_OPT_TIMEOUTMS))
      VP_WITNESS("all scalar options explicit");
  } else {
    VP_WITNESS("apply failed");
  }

  /* release: the channel owns what it now points to, the sysconfig what it was given */
  if (ch.domains != NULL) ares_strsplit_free(ch.domains, ch.ndomains);
  ares_free(ch.sortlist);
  ares_free(ch.lookups);
  if (sc.domains != NULL) ares_strsplit_free(sc.domains, sc.ndomains);
  ares_free(sc.sortlist);
  ares_free(sc.lookups);
  VP_ASSERT(vp_alloc_live == 0, "replaced channel settings are released, nothing leaks");
  VP_WITNESS("end");
}
