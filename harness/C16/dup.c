/* C16 / c16_dup: ares_dup() body - options travel through ares_save_options/ares_init_options (c16_saveinit), every
 * NON-option setting the application made is copied by hand, an explicit server list is re-applied as text
 * (ares_get_servers_csv -> ares_set_servers_ports_csv, c16_servertext) iff ARES_OPT_SERVERS, the temporary options
 * are released exactly once, and a failure leaves *dest == NULL without leaking the half-built channel.
 * Real: ares_init.c (ares_dup), str/ares_str.c (ares_strcpy).
 * Stubs (recorders, arbitrary status): ares_save_options, ares_init_options, ares_destroy_options,
 *   ares_get_servers_csv, ares_set_servers_ports_csv, ares_free_string, ares_destroy, channel lock/unlock. */
#include "vp.h"
#include "ares_private.h"
#include <string.h>

static int                        n_save, n_init, n_destroyopt, n_getcsv, n_setcsv, n_freestr, n_destroy, locked;
static int                        save_mask;
static const struct ares_options *init_opts;
static int                        init_mask;
static ares_channel_t            *made;
static char                      *csv_given;
static const char                *csv_set;
static ares_channel_t            *csv_set_on;

int ares_save_options(const ares_channel_t *channel, struct ares_options *options, int *optmask)
{
  (void)channel;
  n_save++;
  memset(options, 0, sizeof(*options));
  if (vp_bool())
    return ARES_ENOMEM;
  save_mask = vp_int();
  *optmask  = save_mask;
  return ARES_SUCCESS;
}
int ares_init_options(ares_channel_t **channelptr, const struct ares_options *options, int optmask)
{
  n_init++;
  init_opts = options;
  init_mask = optmask;
  if (vp_bool()) {
    *channelptr = NULL;
    return ARES_ENOMEM;
  }
  made = vp_malloc(sizeof(*made));
  memset(made, 0, sizeof(*made));
  *channelptr = made;
  return ARES_SUCCESS;
}
void ares_destroy_options(struct ares_options *options) { (void)options; n_destroyopt++; }
char *ares_get_servers_csv(const ares_channel_t *channel)
{
  (void)channel;
  n_getcsv++;
  if (vp_bool())
    return NULL;
  csv_given    = vp_malloc(2);
  csv_given[0] = 'x';
  csv_given[1] = 0;
  return csv_given;
}
int ares_set_servers_ports_csv(ares_channel_t *channel, const char *csv)
{
  n_setcsv++;
  csv_set    = csv;
  csv_set_on = channel;
  return vp_bool() ? ARES_SUCCESS : ARES_ENOMEM;
}
void ares_free_string(void *str) { n_freestr++; vp_free(str); }
void ares_destroy(ares_channel_t *channel) { n_destroy++; VP_ASSERT(channel == made, "only the half-built duplicate is destroyed"); vp_free(channel); }
void ares_channel_lock(const ares_channel_t *channel) { (void)channel; locked++; }
void ares_channel_unlock(const ares_channel_t *channel) { (void)channel; locked--; }

static ares_socket_t cb_create(ares_socket_t fd, int type, void *d) { (void)fd; (void)type; (void)d; return 0; }
static int  cb_config(ares_socket_t fd, int type, void *d) { (void)fd; (void)type; (void)d; return 0; }
static void cb_state(const char *s, ares_bool_t ok, int flags, void *d) { (void)s; (void)ok; (void)flags; (void)d; }

void harness(void)
{
  static ares_channel_t                      src;
  static const struct ares_socket_functions  legacy;
  ares_channel_t                            *dst = (ares_channel_t *)&src; /* must be overwritten */
  int                                        rc;
  size_t                                     i;

  vp_alloc_install();
  if (vp_bool()) { src.sock_create_cb = (ares_sock_create_callback)cb_create; src.sock_create_cb_data = &src; }
  if (vp_bool()) { src.sock_config_cb = (ares_sock_config_callback)cb_config; src.sock_config_cb_data = &legacy; }
  vp_bytes((unsigned char *)&src.sock_funcs, sizeof(src.sock_funcs));
  src.sock_func_cb_data = vp_bool() ? &src : NULL;
  if (vp_bool()) { src.legacy_sock_funcs = &legacy; src.legacy_sock_funcs_cb_data = &src; }
  if (vp_bool()) { src.server_state_cb = cb_state; src.server_state_cb_data = &src; }
  vp_bytes((unsigned char *)src.local_dev_name, sizeof(src.local_dev_name) - 1);
  src.local_ip4 = vp_u32();
  vp_bytes(src.local_ip6, 16);

  rc = ares_dup(&dst, &src);

  VP_ASSERT(n_save == 1, "options are saved once");
  VP_ASSERT(n_destroyopt == 1, "the temporary options are released exactly once on every path");
  VP_ASSERT(locked == 0, "source channel lock is balanced");
  if (rc == ARES_SUCCESS) {
    VP_ASSERT(dst == made && dst != NULL, "success returns the new channel");
    VP_ASSERT(n_init == 1 && init_mask == save_mask, "the new channel is initialised from the saved options and mask");
    VP_ASSERT(dst->sock_create_cb == src.sock_create_cb && dst->sock_create_cb_data == src.sock_create_cb_data, "socket-create callback copied");
    VP_ASSERT(dst->sock_config_cb == src.sock_config_cb && dst->sock_config_cb_data == src.sock_config_cb_data, "socket-config callback copied");
    VP_ASSERT(memcmp(&dst->sock_funcs, &src.sock_funcs, sizeof(src.sock_funcs)) == 0 && dst->sock_func_cb_data == src.sock_func_cb_data, "socket function table copied");
    VP_ASSERT(dst->legacy_sock_funcs == src.legacy_sock_funcs && dst->legacy_sock_funcs_cb_data == src.legacy_sock_funcs_cb_data, "legacy socket functions copied");
    VP_ASSERT(dst->server_state_cb == src.server_state_cb && dst->server_state_cb_data == src.server_state_cb_data, "server state callback copied");
    VP_ASSERT(dst->local_ip4 == src.local_ip4 && memcmp(dst->local_ip6, src.local_ip6, 16) == 0, "local bind addresses copied");
    for (i = 0; i < sizeof(src.local_dev_name); i++) {
      VP_ASSERT(dst->local_dev_name[i] == src.local_dev_name[i], "local device name copied");
      if (src.local_dev_name[i] == 0)
        break;
    }
    if (save_mask & ARES_OPT_SERVERS) {
      VP_ASSERT(n_getcsv == 1 && n_setcsv == 1 && csv_set == csv_given && csv_set_on == dst && n_freestr == 1,
                "explicit servers are re-applied to the duplicate as text, and the text is released");
      VP_WITNESS("servers re-applied");
    } else {
      VP_ASSERT(n_getcsv == 0 && n_setcsv == 0, "system-configured servers are not cloned");
    }
    VP_ASSERT(n_destroy == 0, "a successful duplicate is not destroyed");
    vp_free(dst);
    VP_WITNESS("dup ok");
  } else {
    VP_ASSERT(dst == NULL, "failure returns NULL in *dest");
    if (n_init == 1 && made != NULL) {
      VP_ASSERT(n_destroy == 1, "a half-built duplicate is destroyed on failure");
      VP_WITNESS("late failure");
    }
    if (n_getcsv == 1 && csv_given != NULL) VP_ASSERT(n_freestr == 1, "server text is released on failure too");
    VP_WITNESS("dup failed");
  }
  VP_ASSERT(vp_alloc_live == 0, "ares_dup leaks nothing");
  VP_WITNESS("end");
}
