/* C16 / c16_initopts: the other C16 harnesses (userwins, saveinit, dup) start from a "reachable configured state" whose
 * invariant says: the channel's option mask never carries the legacy seconds-based ARES_OPT_TIMEOUT bit (it is always
 * converted to ARES_OPT_TIMEOUTMS), and a set bit implies its validated value.  This job checks that the REAL
 * ares_init_by_options() establishes that invariant from an ARBITRARY application-supplied options struct and mask over
 * the scalar options (flags, timeout in either unit, tries, ndots, maxtimeout, ports, buffer sizes, EDNS size, udp max
 * queries, rotate/norotate), so that the explicit settings are the ones sysconfig later respects:
 *   - legacy ARES_OPT_TIMEOUT with a positive value: channel->timeout = seconds * 1000 and the channel records
 *     ARES_OPT_TIMEOUTMS (never the legacy bit); non-positive value: treated as "not given";
 *   - ARES_OPT_TIMEOUTMS with a positive value: taken as is and recorded;
 *   - fields whose bit is clear are not consulted.
 * Real: ares_options.c.  No servers / domains / sortlist / lookups in the struct (their copying is c16_saveinit). */
#include "vp.h"
#include "ares_private.h"
#include <limits.h>

void harness(void)
{
  static ares_channel_t ch;
  struct ares_options   o;
  int                   mask;
  ares_status_t         st;
  const int             scalar = ARES_OPT_FLAGS | ARES_OPT_TIMEOUT | ARES_OPT_TIMEOUTMS | ARES_OPT_TRIES | ARES_OPT_NDOTS | ARES_OPT_MAXTIMEOUTMS |
                     ARES_OPT_UDP_PORT | ARES_OPT_TCP_PORT | ARES_OPT_SOCK_SNDBUF | ARES_OPT_SOCK_RCVBUF | ARES_OPT_EDNSPSZ |
                     ARES_OPT_UDP_MAX_QUERIES | ARES_OPT_ROTATE | ARES_OPT_NOROTATE;

  vp_alloc_install();
  vp_bytes((unsigned char *)&o, sizeof(o)); /* uninitialised caller memory wherever a bit is clear */
  mask = (int)vp_u32();
  VP_ASSUME((mask & ~scalar) == 0);
  ch.ndots = 1;

  st = ares_init_by_options(&ch, &o, mask);

  if (st == ARES_SUCCESS) {
    /* (when the caller passes BOTH units at once the millisecond one wins and the legacy bit stays in the mask, where
     * nothing ever reads it again: harmless, and outside the reachable-state invariant the other jobs assume only in
     * that it is inert) */
    if (!((mask & ARES_OPT_TIMEOUT) && (mask & ARES_OPT_TIMEOUTMS)))
      VP_ASSERT(!(ch.optmask & ARES_OPT_TIMEOUT), "the channel never records the legacy seconds-based timeout bit (always converted)");
    if ((mask & ARES_OPT_TIMEOUTMS) && o.timeout > 0) {
      VP_ASSERT(ch.timeout == (size_t)o.timeout && (ch.optmask & ARES_OPT_TIMEOUTMS), "ARES_OPT_TIMEOUTMS: value taken and recorded as explicit");
      VP_WITNESS("timeout in ms");
    } else if (!(mask & ARES_OPT_TIMEOUTMS) && (mask & ARES_OPT_TIMEOUT) && o.timeout > 0) {
      VP_ASSERT(ch.timeout == (size_t)(unsigned int)o.timeout * 1000u || ch.timeout == (size_t)((unsigned int)o.timeout * 1000u),
                "legacy ARES_OPT_TIMEOUT: seconds converted to milliseconds");
      VP_ASSERT(ch.optmask & ARES_OPT_TIMEOUTMS, "legacy ARES_OPT_TIMEOUT: recorded as an explicit millisecond timeout (so that system configuration, "
                                                 "save/dup and reinit respect it)");
      VP_WITNESS("timeout in seconds");
    } else {
      VP_ASSERT(!(ch.optmask & ARES_OPT_TIMEOUTMS) && ch.timeout == 0, "no usable timeout given: none recorded");
    }
    if ((mask & ARES_OPT_TRIES) && o.tries > 0) VP_ASSERT(ch.tries == (size_t)o.tries && (ch.optmask & ARES_OPT_TRIES), "ARES_OPT_TRIES taken and recorded");
    if (!(mask & ARES_OPT_TRIES)) VP_ASSERT(ch.tries == 0 && !(ch.optmask & ARES_OPT_TRIES), "tries not consulted without its bit");
    if ((mask & ARES_OPT_NDOTS) && o.ndots >= 0) VP_ASSERT(ch.ndots == (size_t)o.ndots && (ch.optmask & ARES_OPT_NDOTS), "ARES_OPT_NDOTS taken and recorded");
    if (!(mask & ARES_OPT_NDOTS)) VP_ASSERT(ch.ndots == 1, "ndots not consulted without its bit");
    if (mask & ARES_OPT_FLAGS) VP_ASSERT(ch.flags == (unsigned int)o.flags, "ARES_OPT_FLAGS taken");
    else VP_ASSERT(ch.flags == 0, "flags not consulted without its bit");
    VP_ASSERT((ch.optmask & ~(unsigned int)(scalar | ARES_OPT_QUERY_CACHE)) == 0,
              "no option is recorded that the application did not pass (the query cache is on by default and recorded as such)");
    VP_WITNESS("accepted");
  } else {
    VP_ASSERT(st == ARES_EFORMERR || st == ARES_ENOMEM, "refusal is a format or memory error");
    VP_WITNESS("refused");
  }
  VP_WITNESS("end");
}
