/* C15 / c15_nameserver: parse_nameserver() and ares_sconfig_append_fromstr() on arbitrary text over the
 * nameserver alphabet (the "nameserver" value of resolv.conf, ares_set_servers_csv(), Windows/Android lists).
 * Real: ares_update_servers.c (TU included: static parse_nameserver, ares_sconfig_t visible), str/ares_buf.c,
 *       str/ares_str.c, inet_net_pton.c, ares_hosts_file.c (only ares_dns_pton is reached), dsa/ares_llist.c,
 *       ares_library_init.c.
 * Stubs: ares_uri_parse_buf() = "not a URI" (the dns:// form is OUTSIDE), ares_array = array_ref.c,
 *        interface lookups aif_nametoindex/aif_indextoname = arbitrary result; -DPTON_STUB (ipaddr_long job only):
 *        ares_dns_pton = "invalid address" + NUL-termination check.
 *
 * text = PREFIX (concrete, may be empty) followed by L bytes, each an arbitrary member of CHARSET.
 * MODE 0: parse_nameserver() on an exact-size heap buffer (any over-read is an out-of-bounds dereference).
 *         Oracle: success => family is AF_INET/AF_INET6, the address parses, udp_port == tcp_port == decimal value
 *         of the port digits found by an independent scan (c15_ns_port: silent truncation above 65535),
 *         ll_iface NUL-terminated inside its IF_NAMESIZE buffer.
 *         Known-finding selectors: KF_c15_ns_port / KFONLY_c15_ns_port (port text above 65535).
 * MODE 2: ares_sconfig_append() with arbitrary address (v4/v6 incl. link-local fe80::/10 and blacklisted fec0::/10),
 *         arbitrary ports and the text as interface name: what is stored equals what was given, link-local needs a
 *         resolvable interface, blacklisted is skipped.
 * MODE 1: ares_sconfig_append_fromstr() on the NUL-terminated text (no blank/comma in CHARSET => one entry;
 *         -DSPLIT_AT=k plants a blank at byte k => two entries): result codes, list entries valid, link-local
 *         entries carry a scope, blacklisted fec0::/10 never stored, nothing leaks after ares_llist_destroy. */
#include "vp.h"
#include "ares_update_servers.c"

#ifndef MODE
#  define MODE 0
#endif
#ifndef L
#  define L 4
#endif
#ifndef PREFIX
#  define PREFIX ""
#endif
#ifndef CHARSET
#  define CHARSET "0123456789abcdef.:%[] x"
#endif
#define PL (sizeof(PREFIX) - 1)
#define N  (PL + L)

ares_status_t ares_uri_parse_buf(ares_uri_t **out, ares_buf_t *buf)
{
  (void)buf;
  *out = NULL;
  return ARES_EBADSTR;
}

#ifdef PTON_STUB
/* long-address probe only: the address text is never valid (more than 8 groups); what is checked is that it
 * reaches the converter as a NUL-terminated string inside ipaddr[INET6_ADDRSTRLEN] */
const void *ares_dns_pton(const char *ipaddr, struct ares_addr *addr, size_t *out_len)
{
  size_t i;
  (void)addr;
  for (i = 0; i < INET6_ADDRSTRLEN && ipaddr[i] != 0; i++)
    ;
  VP_ASSERT(i < INET6_ADDRSTRLEN, "address text handed to the converter is NUL-terminated inside ipaddr[INET6_ADDRSTRLEN]");
  if (i >= 44) VP_WITNESS("address text of 44+ chars reached the converter");
  *out_len = 0;
  return NULL;
}
#endif

static unsigned int if_nametoindex_stub(const char *ifname, void *user_data)
{
  (void)user_data;
  VP_ASSERT(ifname != NULL && ares_strlen(ifname) < IF_NAMESIZE, "interface name handed to the lookup is a NUL-terminated string shorter than IF_NAMESIZE");
  return vp_u32();
}
static const char *if_indextoname_stub(unsigned int ifindex, char *ifname_buf, size_t ifname_buf_len, void *user_data)
{
  (void)user_data;
  /* index 0 is never a valid interface (if_indextoname(0) fails); the library does pass 0 for "%0" although the
   * callback documentation says "must be > 0" */
  if (ifindex == 0 || vp_bool() || ifname_buf_len < 3)
    return NULL;
  ifname_buf[0] = 'e';
  ifname_buf[1] = (char)('0' + (vp_u8() & 7));
  ifname_buf[2] = 0;
  return ifname_buf;
}

static int isdig(unsigned char c) { return c >= '0' && c <= '9'; }
static int isws(unsigned char c) { return c == ' ' || c == '\t' || c == '\r' || c == '\n' || c == '\v' || c == '\f'; }
static int in_set(unsigned char c, const char *set)
{
  size_t i;
  for (i = 0; set[i] != 0; i++)
    if ((unsigned char)set[i] == c)
      return 1;
  return 0;
}

/* independent scan: where does the address text end (index of the byte after it)?  N when malformed */
static size_t addr_end(const unsigned char *t, size_t n)
{
  size_t p = 0, q, dot;
  while (p < n && isws(t[p]))
    p++;
  if (p < n && t[p] == '[') {
    for (q = p + 1; q < n && t[q] != ']'; q++)
      ;
    return q < n ? q + 1 : n;
  }
  for (dot = p; dot < n && t[dot] != '.'; dot++)
    ;
  q = p;
  if (dot < n && dot - p > 0 && dot - p < 4) {
    while (q < n && in_set(t[q], "0123456789."))
      q++;
  } else {
    while (q < n && in_set(t[q], "ABCDEFabcdef0123456789.:"))
      q++;
  }
  return q;
}

void harness(void)
{
  static const char cs[]  = CHARSET;
  static const char pre[] = PREFIX;
  unsigned char    *text;
  size_t            i;

  vp_alloc_install();
  text = vp_malloc(N + 1); /* MODE 0 hands exactly N bytes to the parser; byte N is the NUL for MODE 1 */
  for (i = 0; i < PL; i++)
    text[i] = (unsigned char)pre[i];
  for (i = 0; i < L; i++) {
    uint8_t k = vp_u8();
    VP_ASSUME(k < sizeof(cs) - 1);
    text[PL + i] = (unsigned char)cs[k];
  }
#ifdef SPLIT_AT
  text[SPLIT_AT] = vp_bool() ? ' ' : ',';
#endif
  text[N] = 0;

#if MODE == 0
  {
    ares_sconfig_t s;
    ares_status_t  st;
    unsigned char *exact = vp_malloc(N);
    ares_buf_t    *buf;
    for (i = 0; i < N; i++)
      exact[i] = text[i];
    buf = ares_buf_create_const(exact, N);
    VP_ASSUME(buf != NULL);
    st = parse_nameserver(buf, &s);
    VP_ASSERT(st == ARES_SUCCESS || st == ARES_EBADSTR || st == ARES_EFORMERR,
              "parse_nameserver returns success or a bad-string/format error");
    if (st == ARES_SUCCESS) {
      size_t        e = addr_end(exact, N), nd = 0;
      unsigned long port = 0;
      VP_ASSERT(s.addr.family == AF_INET || s.addr.family == AF_INET6, "accepted nameserver has an IPv4 or IPv6 family");
      VP_ASSERT(s.tcp_port == s.udp_port, "plain nameserver text sets both ports alike");
      if (e < N && exact[e] == ':') {
        for (i = e + 1; i < N && isdig(exact[i]); i++) {
          port = port * 10 + (unsigned long)(exact[i] - '0');
          nd++;
        }
        VP_ASSERT(nd >= 1 && nd <= 5, "an accepted port has 1..5 digits (portstr[6])");
#ifdef KF_c15_ns_port
        VP_ASSUME(port <= 65535);
#endif
#ifdef KFONLY_c15_ns_port
        VP_ASSUME(port > 65535);
#endif
        VP_ASSERT(port <= 65535, "c15_ns_port: an accepted port is a 16-bit number (no silent truncation of 65536..99999)");
        VP_ASSERT(s.udp_port == (unsigned short)port, "port equals the decimal value of its digits");
        VP_WITNESS("port given");
      } else {
        VP_ASSERT(s.udp_port == 0, "no port text means port 0 (default applied later)");
      }
      for (i = 0; i < IF_NAMESIZE && s.ll_iface[i] != 0; i++)
        ;
      VP_ASSERT(i < IF_NAMESIZE, "interface name is NUL-terminated inside ll_iface[IF_NAMESIZE]");
      if (i > 0) VP_WITNESS("iface given");
      if (s.addr.family == AF_INET6) VP_WITNESS("ipv6 accepted");
      if (s.addr.family == AF_INET) VP_WITNESS("ipv4 accepted");
    } else {
      VP_WITNESS("rejected");
    }
    ares_buf_destroy(buf);
    vp_free(exact);
  }
#elif MODE == 2
  /* ares_sconfig_append() directly: arbitrary address/ports, interface name = the text */
  {
    static ares_channel_t ch;
    ares_llist_t         *list = NULL;
    struct ares_addr      addr;
    unsigned short        up = vp_u16(), tp = vp_u16();
    ares_status_t         st;
    int                   ll, bl, withfuncs = vp_bool();
    memset(&addr, 0, sizeof(addr));
    addr.family = vp_bool() ? AF_INET : AF_INET6;
    vp_bytes((unsigned char *)&addr.addr, addr.family == AF_INET ? 4 : 16);
    if (withfuncs) {
      ch.sock_funcs.aif_nametoindex = if_nametoindex_stub;
      ch.sock_funcs.aif_indextoname = if_indextoname_stub;
    }
    ll = addr.family == AF_INET6 && addr.addr.addr6._S6_un._S6_u8[0] == 0xfe && (addr.addr.addr6._S6_un._S6_u8[1] & 0xc0) == 0x80;
    bl = addr.family == AF_INET6 && addr.addr.addr6._S6_un._S6_u8[0] == 0xfe && (addr.addr.addr6._S6_un._S6_u8[1] & 0xc0) == 0xc0;
    st = ares_sconfig_append(&ch, &list, &addr, up, tp, N == 0 ? NULL : (const char *)text);
    VP_ASSERT(st == ARES_SUCCESS, "appending a server never fails while memory is available");
    if (bl) {
      VP_ASSERT(ares_llist_len(list) == 0, "blacklisted fec0::/10 server is skipped");
      VP_WITNESS("blacklisted");
    } else if (ll && (N == 0 || !withfuncs)) {
      VP_ASSERT(ares_llist_len(list) == 0, "link-local server without a resolvable interface is skipped");
    } else if (ares_llist_len(list) == 1) {
      const ares_sconfig_t *s = ares_llist_first_val(list);
      VP_ASSERT(ares_addr_match(&s->addr, &addr) && s->udp_port == up && s->tcp_port == tp, "stored server equals the given address and ports");
      if (ll) {
        VP_ASSERT(s->ll_scope != 0 && s->ll_iface[0] != 0, "a stored link-local server carries interface name and scope");
        for (i = 0; i < IF_NAMESIZE && s->ll_iface[i] != 0; i++)
          ;
        VP_ASSERT(i < IF_NAMESIZE, "stored interface name is NUL-terminated");
        VP_WITNESS("link-local stored");
      } else {
        VP_ASSERT(s->ll_scope == 0 && s->ll_iface[0] == 0, "interface on a non-link-local address is ignored");
      }
    } else {
      VP_ASSERT(ll && ares_llist_len(list) == 0, "only a link-local server whose interface lookup failed is dropped");
      VP_WITNESS("link-local lookup failed");
    }
    ares_llist_destroy(list);
  }
#else
  {
    static ares_channel_t ch;
    ares_llist_t         *list = NULL;
    ares_llist_node_t    *node;
    ares_bool_t           ign = vp_bool() ? ARES_TRUE : ARES_FALSE;
    ares_status_t         st;
    size_t                cnt = 0;
    if (vp_bool()) {
      ch.sock_funcs.aif_nametoindex = if_nametoindex_stub;
      ch.sock_funcs.aif_indextoname = if_indextoname_stub;
    }
    st = ares_sconfig_append_fromstr(&ch, &list, (const char *)text, ign);
    if (ign) {
      VP_ASSERT(st == ARES_SUCCESS, "with ignore_invalid (the resolv.conf path) malformed nameserver text is skipped, never an error");
    } else {
      VP_ASSERT(st == ARES_SUCCESS || st == ARES_EBADSTR || st == ARES_EFORMERR, "the setter path returns success or a bad-string/format error");
    }
    for (node = ares_llist_node_first(list); node != NULL; node = ares_llist_node_next(node)) {
      const ares_sconfig_t *s = ares_llist_node_val(node);
      VP_ASSERT(s->addr.family == AF_INET || s->addr.family == AF_INET6, "stored server has an IPv4 or IPv6 family");
      VP_ASSERT(!ares_server_blacklisted(&s->addr), "blacklisted fec0::/10 servers are never stored");
      if (ares_addr_is_linklocal(&s->addr)) {
        VP_ASSERT(s->ll_scope != 0 && s->ll_iface[0] != 0, "a stored link-local server carries interface name and scope");
        VP_WITNESS("link-local stored");
      }
      for (i = 0; i < IF_NAMESIZE && s->ll_iface[i] != 0; i++)
        ;
      VP_ASSERT(i < IF_NAMESIZE, "stored interface name is NUL-terminated");
      cnt++;
    }
    if (cnt > 0) VP_WITNESS("server stored");
    if (cnt > 1) VP_WITNESS("two servers stored");
    if (st != ARES_SUCCESS) VP_WITNESS("setter error");
    ares_llist_destroy(list);
  }
#endif
  vp_free(text);
  VP_ASSERT(vp_alloc_live == 0, "nameserver parsing leaves no allocation behind");
  VP_WITNESS("end");
}
