/* C15 / c15_pton: the real address converter inet_net_pton.c (ares_inet_pton -> ares_inet_net_pton_ipv4 /
 * ares_inet_pton6 / getbits) on an arbitrary NUL-terminated text of L bytes over the address alphabet, exact-size
 * source and destination buffers.  This discharges the contract assumed by pton_stub.c: no read past the NUL, no
 * write outside the 4/16 destination bytes, result in {1,0,-1}; and gives the value oracle for dotted quads. */
#include "vp.h"
#include "ares_private.h"
#include "ares_inet_net_pton.h"
#include <string.h>

#ifndef L
#  define L 4
#endif
#ifndef AF
#  define AF AF_INET
#endif
#ifndef CHARSET
#  define CHARSET "0123456789abcdefxX.:/"
#endif

void harness(void)
{
  static const char cs[] = CHARSET;
  char             *text;
  unsigned char    *dst;
  size_t            i, sz = (AF == AF_INET) ? 4 : 16;
  int               rc;

  vp_alloc_install();
  text = vp_malloc(L + 1);
  dst  = vp_malloc(sz);
  for (i = 0; i < L; i++) {
    uint8_t k = vp_u8();
    VP_ASSUME(k < sizeof(cs) - 1);
    text[i] = cs[k];
  }
  text[L] = 0;
  memset(dst, 0xA5, sz);
  rc = ares_inet_pton(AF, text, dst);
  VP_ASSERT(rc == 1 || rc == 0 || rc == -1, "ares_inet_pton returns 1, 0 or -1");
  if (rc == 1) {
    VP_WITNESS("accepted");
#if AF == AF_INET && L == 7
    /* d.d.d.d */
    if (text[1] == '.' && text[3] == '.' && text[5] == '.') {
      VP_ASSERT(dst[0] == text[0] - '0' && dst[1] == text[2] - '0' && dst[2] == text[4] - '0' && dst[3] == text[6] - '0',
                "dotted quad converts to its four numbers");
      VP_WITNESS("dotted quad");
    }
#endif
  } else {
    VP_WITNESS("rejected");
  }
  vp_free(text);
  vp_free(dst);
  VP_WITNESS("end");
}
