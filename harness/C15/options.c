/* C15 / c15_options: ares_sysconfig_set_options() + process_option() on option text
 * (the value of an "options" line of resolv.conf and of $RES_OPTIONS).
 * Real: ares_sysconfig_files.c (ares_sysconfig_set_options, static process_option), str/ares_buf.c,
 *       str/ares_str.c, util/ares_math.c, ares_library_init.c.
 * Stubs: ares_array = array_ref.c (fixed-capacity reference of the ares_array contract; the real one is
 *        checked in C19); strtoul/memchr = libc_extra.c (CBMC has no model).
 *
 * MODE 0 (single): text = KEY            (-DNOCOLON)  or
 *                  text = KEY ':' v0 v1 v2, the three value bytes ARBITRARY except blank/tab (a NUL byte ends
 *                  the text early, so value lengths 0..3 are all covered; colons, signs, controls, other
 *                  white space, non-printables are all in).  A blank makes two options: MODE 1/2.
 * MODE 1 (junk after):  text = T b J   compared with text = T on a second sysconfig (metamorphic), b = ' '|tab
 * MODE 2 (junk before): text = J b T   compared with text = T
 *        T = KEY ':' + TV bytes, J = JK bytes (all arbitrary except NUL/blank/tab; J may contain colons).
 * -DKEYSYM: KEY itself is 3 arbitrary bytes (too short to be any recognised option).
 * Known-finding selectors: KF_c15_opt_sign / KFONLY_c15_opt_sign (a '-' in the value). */
#include "vp.h"
#include "ares_private.h"
#include <string.h>

#ifndef MODE
#  define MODE 0
#endif
#ifndef KEY
#  define KEY "timeout"
#endif
/* which field the key is documented to set: 0 none, 1 ndots, 2 timeout_ms, 3 tries, 4 rotate, 5 usevc */
#ifndef FIELD
#  define FIELD 2
#endif

static void arbitrary_sysconfig(ares_sysconfig_t *s)
{
  memset(s, 0, sizeof(*s));
  s->ndots      = vp_size();
  s->tries      = vp_size();
  s->timeout_ms = vp_size();
  s->rotate     = vp_bool() ? ARES_TRUE : ARES_FALSE;
  s->usevc      = vp_bool() ? ARES_TRUE : ARES_FALSE;
}

static int same(const ares_sysconfig_t *a, const ares_sysconfig_t *b)
{
  return a->ndots == b->ndots && a->tries == b->tries && a->timeout_ms == b->timeout_ms && a->rotate == b->rotate &&
         a->usevc == b->usevc && a->sconfig == b->sconfig && a->sortlist == b->sortlist && a->nsortlist == b->nsortlist &&
         a->domains == b->domains && a->ndomains == b->ndomains && a->lookups == b->lookups;
}

static int is_blank(unsigned char c) { return c == ' ' || c == '\t'; }

static size_t put(char *dst, size_t at, const char *s)
{
  size_t i;
  for (i = 0; s[i] != 0; i++)
    dst[at + i] = s[i];
  return at + i;
}

static size_t put_key(char *dst, size_t at)
{
#ifdef KEYSYM
  size_t i;
  for (i = 0; i < 3; i++) {
    unsigned char c = vp_u8();
    VP_ASSUME(c != 0 && !is_blank(c) && c != ':');
    dst[at + i] = (char)c;
  }
  return at + 3;
#else
  return put(dst, at, KEY);
#endif
}

#ifndef JK
#  define JK 3 /* junk token length */
#endif
#ifndef TV
#  define TV 2 /* value bytes of the valid token in MODE 1/2 */
#endif
static size_t put_junk(char *dst, size_t at)
{
  size_t i;
  for (i = 0; i < JK; i++) {
    unsigned char c = vp_u8();
    VP_ASSUME(c != 0 && !is_blank(c));
    dst[at + i] = (char)c;
  }
  return at + JK;
}

void harness(void)
{
  static char      text[40], text2[40];
  ares_sysconfig_t pre, a;
  ares_status_t    st;
  size_t           n = 0;

  vp_alloc_install();
  arbitrary_sysconfig(&pre);
  a = pre;

#if MODE == 0
  {
    unsigned char v[3];
    size_t        i, vl;
    int           alldig = 1, allprint = 1;
    unsigned long num    = 0;

    n = put_key(text, n);
#  ifndef NOCOLON
    text[n++] = ':';
    vp_bytes(v, 3);
#    ifdef VLEN
    vl = VLEN; /* concrete length, bytes arbitrary but not NUL */
    for (i = 0; i < vl; i++)
      VP_ASSUME(v[i] != 0);
#    else
    for (vl = 0; vl < 3 && v[vl] != 0; vl++)
      ;
#    endif
    for (i = 0; i < vl; i++) {
      VP_ASSUME(!is_blank(v[i])); /* a blank splits the text into two options: MODE 1/2 */
      text[n + i] = (char)v[i];
    }
    n += vl;
#  else
    vl = 0;
#  endif
    text[n] = 0;
    {
      int has_minus = 0;
      for (i = 0; i < vl; i++)
        if (v[i] == '-')
          has_minus = 1;
      (void)has_minus;
#  ifdef KF_c15_opt_sign
      VP_ASSUME(!has_minus);
#  endif
#  ifdef KFONLY_c15_opt_sign
      VP_ASSUME(has_minus);
#  endif
    }
    for (i = 0; i < vl; i++) {
      if (v[i] < 0x20 || v[i] > 0x7e)
        allprint = 0; /* a token with a non-printable byte is rejected as a whole (ARES_EBADSTR, ignored) */
      if (v[i] < '0' || v[i] > '9')
        alldig = 0;
      else
        num = num * 10 + (unsigned long)(v[i] - '0');
    }

    st = ares_sysconfig_set_options(&a, text);
    VP_ASSERT(st == ARES_SUCCESS, "option text never fails initialisation while memory is available (ENOMEM only on allocation failure)");

    /* frame: a key only ever touches its own field (no 1..3 free bytes can spell another option) */
    if (FIELD != 1) VP_ASSERT(a.ndots == pre.ndots, "ndots changed only by ndots:");
    if (FIELD != 2) VP_ASSERT(a.timeout_ms == pre.timeout_ms, "timeout changed only by timeout:/retrans:");
    if (FIELD != 3) VP_ASSERT(a.tries == pre.tries, "tries changed only by attempts:/retry:");
    if (FIELD != 4) VP_ASSERT(a.rotate == pre.rotate, "rotate changed only by rotate");
    if (FIELD != 5) VP_ASSERT(a.usevc == pre.usevc, "usevc changed only by use-vc/usevc");
    VP_ASSERT(a.sconfig == pre.sconfig && a.sortlist == pre.sortlist && a.domains == pre.domains && a.lookups == pre.lookups &&
                a.nsortlist == pre.nsortlist && a.ndomains == pre.ndomains,
              "options never touch servers/sortlist/domains/lookups");
    if (FIELD == 0) VP_ASSERT(same(&a, &pre), "unrecognised option changes nothing");

    /* ranges */
    if (FIELD == 2 && a.timeout_ms != pre.timeout_ms) VP_ASSERT(a.timeout_ms >= 1000, "a timeout taken from text is at least one second");
    if (FIELD == 3 && a.tries != pre.tries) VP_ASSERT(a.tries >= 1, "a try count taken from text is at least 1");
    if (FIELD == 1 && a.ndots != pre.ndots) VP_ASSERT(a.ndots <= 0x7fffffff, "c15_opt_sign: a number taken from option text fits the int range of the options API (ndots)");
    if (FIELD == 2 && a.timeout_ms != pre.timeout_ms) VP_ASSERT(a.timeout_ms <= 0x7fffffff, "c15_opt_sign: a number taken from option text fits the int range of the options API (timeout)");
    if (FIELD == 3 && a.tries != pre.tries) VP_ASSERT(a.tries <= 0x7fffffff, "c15_opt_sign: a number taken from option text fits the int range of the options API (tries)");
    /* exact effect for a purely numeric value (the documented form key:n) */
    if (alldig && vl > 0) {
      VP_WITNESS("numeric value");
      if (FIELD == 1) VP_ASSERT(a.ndots == num, "ndots:n sets ndots to n");
      if (FIELD == 2) VP_ASSERT(a.timeout_ms == (num != 0 ? num * 1000 : pre.timeout_ms), "timeout:n sets n seconds; timeout:0 is ignored");
      if (FIELD == 3) VP_ASSERT(a.tries == (num != 0 ? num : pre.tries), "attempts:n sets n tries; attempts:0 is ignored");
      if (num == 0) VP_WITNESS("zero value");
    } else if (vl > 0) {
      VP_WITNESS("non-numeric value");
    }
    if (vl == 0) {
      if (FIELD == 1) VP_ASSERT(a.ndots == 0, "ndots without a value means 0 (strtoul of nothing)");
      VP_WITNESS("no value");
    }
    if (FIELD == 4 && allprint) VP_ASSERT(a.rotate == ARES_TRUE, "rotate sets rotate");
    if (FIELD == 5 && allprint) VP_ASSERT(a.usevc == ARES_TRUE, "use-vc sets usevc");
    if (!allprint) VP_WITNESS("non-printable value");
  }
#else
  {
    ares_sysconfig_t b  = pre;
    size_t           n2 = 0, t0, t1;
    ares_status_t    st2;
#  if MODE == 2
    n         = put_junk(text, n);
    text[n++] = vp_bool() ? ' ' : '\t';
#  endif
    t0        = n;
    n         = put_key(text, n);
    text[n++] = ':';
    for (t1 = 0; t1 < TV; t1++) {
      unsigned char c = vp_u8();
      VP_ASSUME(c != 0 && !is_blank(c));
      text[n++] = (char)c;
    }
    t1 = n;
#  if MODE == 1
    text[n++] = vp_bool() ? ' ' : '\t';
    n         = put_junk(text, n);
#  endif
    text[n] = 0;
    /* the same valid token alone */
    for (n2 = 0; n2 < t1 - t0; n2++)
      text2[n2] = text[t0 + n2];
    text2[n2] = 0;
    st  = ares_sysconfig_set_options(&a, text);
    st2 = ares_sysconfig_set_options(&b, text2);
    VP_ASSERT(st == ARES_SUCCESS && st2 == ARES_SUCCESS, "option text never fails initialisation while memory is available (ENOMEM only on allocation failure)");
    VP_ASSERT(same(&a, &b), "a junk option next to a valid one changes nothing (same result as the valid option alone)");
    if (!same(&a, &pre)) VP_WITNESS("valid option took effect");
  }
#endif
  VP_ASSERT(vp_alloc_live == 0, "no allocation outlives ares_sysconfig_set_options (nothing is stored in sysconfig)");
  VP_WITNESS("end");
}
