/* snprintf model for the hosts-file jobs (copy of the model in harness/C16/libc_extra.c): CBMC 6.11 treats snprintf output
 * as nondeterministic, which makes every normalised address text symbolic.  Native replay builds use the real libc. */
#ifndef VP_NATIVE
#include <stddef.h>
#include <stdarg.h>
/* ISO C snprintf restricted to the conversions the code under test uses (inet_ntop.c: "%u.%u.%u.%u", "%x";
 * ares_update_servers.c: "%d", "%s%%%s"): %u %d %x %s %%, no flags/width/precision (anything else is rejected by a
 * failing assertion).  Returns the length the full output would have; writes at most size-1 characters + NUL.
 * CBMC 6.11 does not apply the default argument promotions to variadic arguments (an unsigned char argument read
 * back with va_arg(ap, unsigned) is an out-of-bounds read of a 1-byte slot), so each conversion reads the type its
 * only call site passes: unsigned char for "%u" (inet_ntop4: src[i]), unsigned int for "%x" (inet_ntop6: words[i]),
 * unsigned short for "%d" (ares_get_server_addr_uri: tcp_port). */
static size_t vp_put(char *dst, size_t size, size_t at, char c)
{
  if (at + 1 < size)
    dst[at] = c;
  return at + 1;
}
static size_t vp_put_num(char *dst, size_t size, size_t at, unsigned long v, unsigned base)
{
  char   tmp[24];
  size_t n = 0, i;
  do {
    unsigned d = (unsigned)(v % base);
    tmp[n++]   = (char)(d < 10 ? '0' + d : 'a' + (d - 10));
    v /= base;
  } while (v != 0 && n < sizeof(tmp));
  for (i = n; i > 0; i--)
    at = vp_put(dst, size, at, tmp[i - 1]);
  return at;
}
int snprintf(char *dst, size_t size, const char *fmt, ...)
{
  va_list ap;
  size_t  at = 0, i;
  va_start(ap, fmt);
  for (i = 0; fmt[i] != 0; i++) {
    if (fmt[i] != '%') {
      at = vp_put(dst, size, at, fmt[i]);
      continue;
    }
    i++;
    if (fmt[i] == 'u') {
      at = vp_put_num(dst, size, at, va_arg(ap, unsigned char), 10);
    } else if (fmt[i] == 'x') {
      at = vp_put_num(dst, size, at, va_arg(ap, unsigned int), 16);
    } else if (fmt[i] == 'd') {
      int v = (int)va_arg(ap, unsigned short);
      if (v < 0) {
        at = vp_put(dst, size, at, '-');
        at = vp_put_num(dst, size, at, 0UL - (unsigned long)(long)v, 10);
      } else {
        at = vp_put_num(dst, size, at, (unsigned long)v, 10);
      }
    } else if (fmt[i] == 's') {
      const char *s = va_arg(ap, const char *);
      size_t      k;
      for (k = 0; s[k] != 0; k++)
        at = vp_put(dst, size, at, s[k]);
    } else if (fmt[i] == '%') {
      at = vp_put(dst, size, at, '%');
    } else {
      __CPROVER_assert(0, "BOUND:snprintf model: unsupported conversion");
    }
  }
  va_end(ap);
  if (size > 0)
    dst[at < size ? at : size - 1] = 0;
  return (int)at;
}
#endif
