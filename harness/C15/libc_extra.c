/* libc functions that CBMC 6.11 ships no model for (a call would be a no-body
 * failure).  Faithful small implementations per ISO C; native replay builds use
 * the real libc. */
#ifndef VP_NATIVE
#include <stddef.h>
#include <limits.h>

void *memchr(const void *s, int c, size_t n)
{
  const unsigned char *p = s;
  size_t               i;
  for (i = 0; i < n; i++)
    if (p[i] == (unsigned char)c)
      return (void *)(p + i);
  return NULL;
}

/* ISO C strtoul, bases 2..36 and 0; "C" locale white space; an optional sign; negation is performed in the
 * return type; ULONG_MAX on overflow (errno is not modelled: no caller in the code under test reads it). */
unsigned long strtoul(const char *nptr, char **endptr, int base)
{
  const char   *p   = nptr;
  unsigned long acc = 0;
  int           neg = 0, any = 0, ovf = 0;

  while (*p == ' ' || *p == '\t' || *p == '\n' || *p == '\v' || *p == '\f' || *p == '\r')
    p++;
  if (*p == '+' || *p == '-') {
    neg = (*p == '-');
    p++;
  }
  if ((base == 0 || base == 16) && p[0] == '0' && (p[1] == 'x' || p[1] == 'X') &&
      ((p[2] >= '0' && p[2] <= '9') || (p[2] >= 'a' && p[2] <= 'f') || (p[2] >= 'A' && p[2] <= 'F'))) {
    p    += 2;
    base  = 16;
  }
  if (base == 0)
    base = (*p == '0') ? 8 : 10;
  for (;; p++) {
    unsigned d;
    if (*p >= '0' && *p <= '9')
      d = (unsigned)(*p - '0');
    else if (*p >= 'a' && *p <= 'z')
      d = (unsigned)(*p - 'a') + 10;
    else if (*p >= 'A' && *p <= 'Z')
      d = (unsigned)(*p - 'A') + 10;
    else
      break;
    if (d >= (unsigned)base)
      break;
    any = 1;
    if (acc > (ULONG_MAX - d) / (unsigned long)base)
      ovf = 1;
    else
      acc = acc * (unsigned long)base + d;
  }
  if (endptr != NULL)
    *endptr = (char *)(any ? p : nptr);
  if (ovf)
    return ULONG_MAX;
  return neg ? (0UL - acc) : acc;
}
#endif
