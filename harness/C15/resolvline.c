/* C15 / c15_resolvline: ares_sysconfig_parse_resolv_line() - one resolv.conf line with a concrete keyword and an
 * ARBITRARY value - never aborts initialisation, keeps the sysconfig well-formed, and is INDEPENDENT of the other
 * directives.
 *   X = KW sep V-arbitrary-bytes   (KW and sep concrete per job; unrecognised keywords: "nameservers", "Search",
 *                                   a comment "#...")
 * MODE 0 (frame, all keywords): pre-state = freshly initialised sysconfig (-DPRE=0) or a populated one (-DPRE=1: one
 *   search domain, lookups, one server, one sortlist entry, arbitrary option scalars); ONE real call on X.
 *   Every field not owned by X's keyword is unchanged (deep: strings, server, sortlist entry, scalars); the owned field
 *   is well-formed afterwards; a junk keyword owns nothing.
 * MODE 1 (metamorphic, unrecognised keywords): run A = [ X ; C1..C5 ] (ORDER 0) or [ C1..C5 ; X ] (ORDER 1), run B =
 *   [ C1..C5 ], Ci = one concrete valid line per directive kind; A and B end up equal (two real runs).
 * Both: every call returns ARES_SUCCESS (the stated mechanism allows ENOMEM only, and no allocation fails here); the
 *   sysconfigs are released by the harness and nothing leaks.
 * Real: ares_sysconfig_files.c (linked), ares_update_servers.c (included: ares_sconfig_t), str/ares_buf.c,
 *   str/ares_str.c, str/ares_strsplit.c, dsa/ares_llist.c, ares_hosts_file.c (ares_dns_pton only), util/ares_math.c.
 * Stubs: ares_array = array_ref.c, ares_inet_pton = pton_stub.c (contract; real one: c15_pton_*),
 *   ares_uri_parse_buf = "not a URI". */
#include "vp.h"
#include "ares_update_servers.c"

#ifndef KW
#  define KW "search"
#endif
#ifndef OWN /* 0 nothing, 1 domains, 2 lookups, 3 servers, 4 sortlist, 5 option scalars */
#  define OWN 1
#endif
#ifndef V
#  define V 4
#endif
#ifndef ORDER
#  define ORDER 0
#endif
#ifndef SEP
#  define SEP ' '
#endif
#ifndef VPREFIX
#  define VPREFIX "" /* concrete start of the value (e.g. "bind " so that 4 more bytes can repeat a lookup word) */
#endif
#ifndef MODE
#  define MODE 0
#endif
#ifndef PRE
#  define PRE 0
#endif

ares_status_t ares_uri_parse_buf(ares_uri_t **out, ares_buf_t *buf)
{
  (void)buf;
  *out = NULL;
  return ARES_EBADSTR;
}

static ares_channel_t ch;

static const char *const cline[6] = { NULL, "search a.b c.d", "lookup file bind", "nameserver 1.2.3.4", "sortlist 1.2.3.0/24",
                                      "options ndots:2 rotate" };

static void feed(ares_sysconfig_t *sc, const unsigned char *txt, size_t len)
{
  ares_buf_t   *line = ares_buf_create_const(txt, len);
  ares_status_t st;
  VP_ASSUME(line != NULL);
  st = ares_sysconfig_parse_resolv_line(&ch, sc, line);
  VP_ASSERT(st == ARES_SUCCESS, "a resolv.conf line never aborts initialisation while memory is available (only ENOMEM is fatal, and only on allocation failure)");
  ares_buf_destroy(line);
}

static void feed_concrete(ares_sysconfig_t *sc)
{
  int k;
  for (k = 1; k <= 5; k++) {
    if (k != OWN)
      feed(sc, (const unsigned char *)cline[k], strlen(cline[k]));
  }
}

static void sc_init(ares_sysconfig_t *sc)
{
  memset(sc, 0, sizeof(*sc));
  sc->ndots = 1; /* as ares_init_by_sysconfig() */
}

static void sc_free(ares_sysconfig_t *sc)
{
  ares_llist_destroy(sc->sconfig);
  ares_strsplit_free(sc->domains, sc->ndomains);
  ares_free(sc->sortlist);
  ares_free(sc->lookups);
}

static int str_eq(const char *a, const char *b)
{
  size_t i;
  if (a == NULL || b == NULL)
    return a == b;
  for (i = 0; i < 16; i++) {
    if (a[i] != b[i])
      return 0;
    if (a[i] == 0)
      return 1;
  }
  return 0;
}

static int domains_eq(const ares_sysconfig_t *a, const ares_sysconfig_t *b)
{
  size_t i;
  if (a->ndomains != b->ndomains || (a->domains == NULL) != (b->domains == NULL))
    return 0;
  for (i = 0; i < a->ndomains && i < 4; i++)
    if (!str_eq(a->domains[i], b->domains[i]))
      return 0;
  return 1;
}

static int servers_eq(const ares_sysconfig_t *a, const ares_sysconfig_t *b)
{
  ares_llist_node_t *x = ares_llist_node_first(a->sconfig), *y = ares_llist_node_first(b->sconfig);
  int                n = 0;
  if (ares_llist_len(a->sconfig) != ares_llist_len(b->sconfig))
    return 0;
  while (x != NULL && y != NULL && n < 3) {
    const ares_sconfig_t *s = ares_llist_node_val(x), *t = ares_llist_node_val(y);
    if (!ares_addr_match(&s->addr, &t->addr) || s->udp_port != t->udp_port || s->tcp_port != t->tcp_port ||
        s->ll_scope != t->ll_scope || !str_eq(s->ll_iface, t->ll_iface))
      return 0;
    x = ares_llist_node_next(x);
    y = ares_llist_node_next(y);
    n++;
  }
  return x == NULL && y == NULL;
}

static int sortlist_eq(const ares_sysconfig_t *a, const ares_sysconfig_t *b)
{
  size_t i;
  if (a->nsortlist != b->nsortlist || (a->sortlist == NULL) != (b->sortlist == NULL))
    return 0;
  for (i = 0; i < a->nsortlist && i < 3; i++)
    if (a->sortlist[i].mask != b->sortlist[i].mask || !ares_addr_match(&a->sortlist[i].addr, &b->sortlist[i].addr))
      return 0;
  return 1;
}

static int options_eq(const ares_sysconfig_t *a, const ares_sysconfig_t *b)
{
  return a->ndots == b->ndots && a->tries == b->tries && a->timeout_ms == b->timeout_ms && a->rotate == b->rotate && a->usevc == b->usevc;
}

void harness(void)
{
  static const char kw[] = KW;
  ares_sysconfig_t  A, B;
  unsigned char    *x;
  size_t            n = 0, i, xl;

  vp_alloc_install();
#ifdef KWSYM
  xl = KWSYM + 1 + V;
#else
  xl = sizeof(kw) - 1 + 1 + (sizeof(VPREFIX) - 1) + V;
#endif
  x = vp_malloc(xl); /* exact size: the line is length-delimited, not NUL-terminated */
#ifdef KWSYM
  for (i = 0; i < KWSYM; i++) {
    unsigned char c = vp_u8();
    VP_ASSUME(c != ' ' && c != '\t' && c != '\r' && c != '\n' && c != '\v' && c != '\f');
    x[n++] = c;
  }
#else
  for (i = 0; i < sizeof(kw) - 1; i++)
    x[n++] = (unsigned char)kw[i];
#endif
  x[n++] = SEP;
  for (i = 0; i < sizeof(VPREFIX) - 1; i++)
    x[n++] = (unsigned char)VPREFIX[i];
  /* separator concrete: a symbolic separator would make the keyword text itself symbolic for the symbolic executor */
  for (i = 0; i < V; i++) {
    x[n] = vp_u8();
    VP_ASSUME(x[n] != '\n'); /* the line splitter never passes a line feed */
#ifdef NOBLANK
    VP_ASSUME(x[n] != ' ' && x[n] != '\t'); /* one option token; several tokens are c15_options_* territory */
#endif
#ifdef NOSEP
    VP_ASSUME(x[n] != ' ' && x[n] != ','); /* one server entry; several entries are c15_nameserver_* territory */
#endif
    n++;
  }

  sc_init(&A);
  sc_init(&B);
#if MODE == 1
#  if ORDER == 0
  feed(&A, x, xl);
  feed_concrete(&A);
#  else
  feed_concrete(&A);
  feed(&A, x, xl);
#  endif
  feed_concrete(&B);
#else
  {
    int k;
    for (k = 0; k < 2; k++) {
      ares_sysconfig_t *s = k ? &B : &A;
#  if PRE == 1
      struct ares_addr a4;
      s->domains    = ares_malloc_zero(sizeof(char *));
      s->domains[0] = ares_strdup("a.b");
      s->ndomains   = 1;
      s->lookups    = ares_strdup("bf");
      s->sortlist   = ares_malloc_zero(sizeof(*s->sortlist));
      s->sortlist[0].addr.family = AF_INET;
      memcpy(&s->sortlist[0].addr.addr.addr4, "\x0a\x00\x00\x00", 4);
      s->sortlist[0].mask = 8;
      s->nsortlist        = 1;
      memset(&a4, 0, sizeof(a4));
      a4.family = AF_INET;
      memcpy(&a4.addr.addr4, "\x01\x02\x03\x04", 4);
      VP_ASSUME(ares_sconfig_append(&ch, &s->sconfig, &a4, 53, 53, NULL) == ARES_SUCCESS);
      VP_ASSUME(s->domains != NULL && s->domains[0] != NULL && s->lookups != NULL && s->sortlist != NULL);
#  endif
      if (k == 0) {
        s->ndots      = vp_size();
        s->tries      = vp_size();
        s->timeout_ms = vp_size();
        s->rotate     = vp_bool() ? ARES_TRUE : ARES_FALSE;
        s->usevc      = vp_bool() ? ARES_TRUE : ARES_FALSE;
      } else {
        s->ndots = A.ndots; s->tries = A.tries; s->timeout_ms = A.timeout_ms; s->rotate = A.rotate; s->usevc = A.usevc;
      }
    }
  }
  feed(&A, x, xl);
#endif

  if (OWN != 1) VP_ASSERT(domains_eq(&A, &B), "search/domain list is independent of an unrelated or malformed line");
  if (OWN != 2) VP_ASSERT(str_eq(A.lookups, B.lookups), "lookup order is independent of an unrelated or malformed line");
  if (OWN != 3) VP_ASSERT(servers_eq(&A, &B), "nameserver list is independent of an unrelated or malformed line");
  if (OWN != 4) VP_ASSERT(sortlist_eq(&A, &B), "sortlist is independent of an unrelated or malformed line");
  if (OWN != 5) VP_ASSERT(options_eq(&A, &B), "resolver options are independent of an unrelated or malformed line");
#if MODE == 0 && PRE == 1
  if (OWN == 3) VP_ASSERT(ares_llist_len(A.sconfig) >= 1, "a nameserver line appends, it never drops configured servers");
#  ifdef SINGLE_DOMAIN
  VP_ASSERT(domains_eq(&A, &B), "the legacy domain directive does not override an existing search list");
#  endif
  /* a lookup/hostresorder line naming no recognised source is a malformed line: it must not erase the established order
   * (it either replaces it by a valid order, checked below, or leaves it) */
  if (OWN == 2) VP_ASSERT(A.lookups != NULL, "a lookup line never erases an established lookup order");
  /* same for the search list: a search/domain line whose value names no domain (separators only) is a malformed line
   * and changes nothing; any other value replaces the list by at least one domain */
  if (OWN == 1) VP_ASSERT(A.ndomains >= 1 && A.domains != NULL, "a search line never erases an established search list");
#endif

  /* owned field well-formed */
  VP_ASSERT((A.domains == NULL) == (A.ndomains == 0), "domain list pointer and count agree");
  for (i = 0; i < A.ndomains && i < 4; i++)
    VP_ASSERT(A.domains[i] != NULL && A.domains[i][0] != 0, "every search domain is a non-empty string");
#ifdef SINGLE_DOMAIN
  VP_ASSERT(A.ndomains <= 1, "the legacy domain directive gives at most one domain");
#endif
  if (A.lookups != NULL)
    VP_ASSERT(str_eq(A.lookups, "b") || str_eq(A.lookups, "f") || str_eq(A.lookups, "bf") || str_eq(A.lookups, "fb"),
              "lookup order is one of b, f, bf, fb");
  VP_ASSERT((A.sortlist == NULL) == (A.nsortlist == 0), "sortlist pointer and count agree");
  for (i = 0; i < A.nsortlist && i < 3; i++)
    VP_ASSERT((A.sortlist[i].addr.family == AF_INET && A.sortlist[i].mask <= 32) || (A.sortlist[i].addr.family == AF_INET6 && A.sortlist[i].mask <= 128),
              "sortlist entry has a valid family and mask");
  {
    ares_llist_node_t *nd;
    int                k = 0;
    for (nd = ares_llist_node_first(A.sconfig); nd != NULL && k < 3; nd = ares_llist_node_next(nd), k++) {
      const ares_sconfig_t *s = ares_llist_node_val(nd);
      VP_ASSERT(s->addr.family == AF_INET || s->addr.family == AF_INET6, "stored nameserver has a valid family");
    }
  }
  if (OWN == 1 && !domains_eq(&A, &B)) VP_WITNESS("line took effect");
  if (OWN == 2 && !str_eq(A.lookups, B.lookups)) VP_WITNESS("line took effect");
  if (OWN == 3 && !servers_eq(&A, &B)) VP_WITNESS("line took effect");
  if (OWN == 4 && !sortlist_eq(&A, &B)) VP_WITNESS("line took effect");
  if (OWN == 5 && !options_eq(&A, &B)) VP_WITNESS("line took effect");
  if (OWN == 0) {
    VP_ASSERT(domains_eq(&A, &B) && str_eq(A.lookups, B.lookups) && servers_eq(&A, &B) && sortlist_eq(&A, &B) && options_eq(&A, &B),
              "a line with an unrecognised keyword changes nothing");
  }

  sc_free(&A);
  sc_free(&B);
  vp_free(x);
  VP_ASSERT(vp_alloc_live == 0, "resolv.conf line parsing leaves no allocation behind once the sysconfig is released");
  VP_WITNESS("end");
}
