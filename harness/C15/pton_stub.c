/* Contract stub of inet_net_pton.c (ares_inet_pton / ares_inet_net_pton) for the text-parser harnesses whose
 * bound would otherwise be eaten by the address converter (its nested digit loops are re-encoded for every
 * candidate token).  Contract assumed (and checked on the real converter by the c15_pton_* jobs):
 *   - src must be a NUL-terminated string (checked here: any unterminated buffer is an out-of-bounds read),
 *   - returns 1 after writing exactly 4 (AF_INET) / 16 (AF_INET6) bytes to dst, or 0 (not an address), or -1 for
 *     another family; nothing else is touched,
 *   - the result is a FUNCTION of (af, text): the same text converts the same way every time (uninterpreted
 *     functions over the first 16 characters; longer texts are a BOUND).
 * The converter accepts only texts made of [0-9A-Fa-fxX.:/]; the stub keeps that so callers cannot rely on it
 * accepting anything else. */
#include "ares_private.h"
#include "vp.h"

#ifndef VP_NATIVE
int                __CPROVER_uninterpreted_pton_ok(int af, unsigned long long lo, unsigned long long hi);
unsigned long long __CPROVER_uninterpreted_pton_lo(int af, unsigned long long lo, unsigned long long hi);
unsigned long long __CPROVER_uninterpreted_pton_hi(int af, unsigned long long lo, unsigned long long hi);

static int pton_common(int af, const char *src, unsigned char *dst, size_t size)
{
  unsigned long long lo = 0, hi = 0, a, b;
  size_t             i;
  int                okchars = 1;
  for (i = 0; i < 17 && src[i] != 0; i++) {
    unsigned char c = (unsigned char)src[i];
    if (i < 8)
      lo |= (unsigned long long)c << (8 * i);
    else if (i < 16)
      hi |= (unsigned long long)c << (8 * (i - 8));
    if (!((c >= '0' && c <= '9') || (c >= 'a' && c <= 'f') || (c >= 'A' && c <= 'F') || c == 'x' || c == 'X' || c == '.' ||
          c == ':' || c == '/'))
      okchars = 0;
  }
  VP_BOUND(i <= 16, "pton_stub: address text longer than 16 characters");
  if (i == 0 || !okchars)
    return 0;
  if (!__CPROVER_uninterpreted_pton_ok(af, lo, hi))
    return 0;
  a = __CPROVER_uninterpreted_pton_lo(af, lo, hi);
  b = __CPROVER_uninterpreted_pton_hi(af, lo, hi);
  for (i = 0; i < size; i++)
    dst[i] = (unsigned char)((i < 8 ? a >> (8 * i) : b >> (8 * (i - 8))) & 0xff);
  return 1;
}

int ares_inet_pton(int af, const char *src, void *dst)
{
  if (af == AF_INET)
    return pton_common(af, src, dst, 4);
  if (af == AF_INET6)
    return pton_common(af, src, dst, 16);
  return -1;
}
#else
/* native replay: the real converter (its choices may differ from the solver's uninterpreted ones; a replay that
 * then leaves the assumed region is reported as diverged) */
#  include "inet_net_pton.c"
#endif
