/* C15 / c15_hosts: the hosts-file reader of ares_hosts_file.c - ares_parse_hosts() (line loop), ares_parse_hosts_ipaddr(),
 * ares_parse_hosts_hostnames(), ares_hosts_entry_isdup(), ares_normalize_ipaddr(), ares_hosts_file_add(),
 * ares_hosts_file_match(), ares_hosts_file_merge_entry(), ares_hosts_file_destroy().
 * Real: ares_hosts_file.c (TU included: statics and the two structs visible), str/ares_buf.c (load_file, tag/fetch,
 *       consume_*), str/ares_str.c (ares_is_hostname, ares_strcaseeq), inet_net_pton.c + inet_ntop.c (REAL address
 *       normalisation on the job's concrete address texts), dsa/ares_llist.c, ares_library_init.c.
 * Stubs: ares_htable_strvp = harness/stubs/strvp_ref.c (case-insensitive association list, insertion order; the real
 *        table's seeded hash makes every slot symbolic); fopen/setvbuf/fseek/ftell/fread/fclose = an in-memory file (always
 *        present); time() = arbitrary.  The list destructor call in ares_llist_node_destroy is restricted to ares_free
 *        (what ares_parse_hosts_ipaddr/_hostnames install) with goto-instrument.
 *
 * The file is TEXT (concrete, from jobs.py) in which every '@' is replaced by an ARBITRARY byte: a member of the alphabet
 * "xyX \t#.-" (default), or any byte value except line feed (-DANYBYTE).  At most 3 holes per job, always AFTER a concrete
 * address text and a blank (the name / alias / comment region of a line) or inside a comment: a hole in the address
 * position sends symbolic text through the real inet_net_pton.c converter, and a hole that may be a line feed does the same
 * for the byte after it (measured: no verdict in 150-240 s with 2 holes; the converter on arbitrary text is c15_pton_*).
 * The line structure is therefore concrete; junk names (x, y, X, '.', '-') never collide with the concrete names of the
 * valid lines: whatever the holes contain, the lookups of the concrete names and addresses must be those of the valid lines
 * alone (line independence), which the job states as CHECKS.
 * Oracle: ares_parse_hosts() returns ARES_SUCCESS with a table; the file is closed; well-formedness of the whole result
 * (every name key maps to an entry listing that name, every address key maps to an entry listing that address, refcnt ==
 * number of address keys of the entry, all names pass ares_is_hostname, all addresses are in normalised form, no name
 * twice in one entry [FINDING c15_hosts_dup_alias]); the job's CHECKS (expected lookups written from the file-format
 * documentation in ares_hosts_file.c: first name = canonical name, further names = aliases, '#' starts a comment, blank
 * lines ignored, same name or address on several lines = one merged entry, first match wins); after
 * ares_hosts_file_destroy() nothing is left allocated. */
#include "vp.h"
#include <stdio.h>
#include <errno.h>
#include <time.h>
#include "ares_hosts_file.c"

#ifndef TEXT
#  define TEXT "1.2.3.4 foo bar\n"
#endif
#ifndef CHECKS
#  define CHECKS name_has_ip(hf, "foo", "1.2.3.4");
#endif
#ifndef MAXKEYS
#  define MAXKEYS 6
#endif
#ifndef NAMES0 /* number of names the concrete valid lines define */
#  define NAMES0 1000
#endif
#define TL (sizeof(TEXT) - 1)

const char *vp_strvp_nth(const ares_htable_strvp_t *h, size_t i, void **val);

static int  file_open, file_pos_end;
static FILE the_file;
FILE       *fopen(const char *path, const char *mode)
{
  (void)mode;
  VP_ASSERT(path != NULL && path[0] == '/' && path[1] == 'h' && path[2] == 0, "the reader opens the file it was given");
  file_open++;
  return &the_file;
}
int    setvbuf(FILE *fp, char *buf, int mode, size_t size) { (void)fp; (void)buf; (void)mode; (void)size; return 0; }
int    fseek(FILE *fp, long off, int whence) { (void)fp; (void)off; file_pos_end = (whence == SEEK_END); return 0; }
long   ftell(FILE *fp) { (void)fp; return file_pos_end ? (long)TL : 0; }
size_t fread(void *ptr, size_t size, size_t nmemb, FILE *fp)
{
  static const char txt[] = TEXT;
  static const char cs[]  = "xyX \t#.-";
  unsigned char    *p = ptr;
  size_t            i;
  (void)fp;
  VP_ASSERT(size == 1 && nmemb == TL, "the whole file is read into a buffer of the announced size");
  for (i = 0; i < TL; i++) {
    if (txt[i] == '@') {
#ifdef ANYBYTE
      p[i] = vp_u8();
      VP_ASSUME(p[i] != '\n');
#else
      p[i] = (unsigned char)cs[vp_u8() & 7];
#endif
    } else {
      p[i] = (unsigned char)txt[i];
    }
  }
  return TL;
}
int    fclose(FILE *fp) { (void)fp; file_open--; return 0; }
time_t time(time_t *t)
{
  time_t v = (time_t)vp_long();
  if (t != NULL)
    *t = v;
  return v;
}

/* ---------- harness-side list helpers (bounded walks over the real ares_llist) ---------- */
static int ci_eq(const char *a, const char *b)
{
  size_t i;
  for (i = 0; i < 48; i++) {
    char x = a[i], y = b[i];
    if (x >= 'A' && x <= 'Z') x = (char)(x + 32);
    if (y >= 'A' && y <= 'Z') y = (char)(y + 32);
    if (x != y)
      return 0;
    if (a[i] == 0)
      return 1;
  }
  return 0;
}
static size_t list_count(ares_llist_t *l, const char *s)
{
  ares_llist_node_t *n;
  size_t             c = 0, k = 0;
  for (n = ares_llist_node_first(l); n != NULL && k < MAXKEYS + 2; n = ares_llist_node_next(n), k++)
    if (ci_eq(ares_llist_node_val(n), s))
      c++;
  return c;
}

/* ---------- CHECKS vocabulary ---------- */
static void name_has_ip(ares_hosts_file_t *hf, const char *name, const char *ip)
{
  ares_hosts_entry_t *e = ares_htable_strvp_get_direct(hf->hosthash, name);
  VP_ASSERT(e != NULL, "a name of a valid line resolves, whatever unrelated or malformed lines surround it");
  if (e != NULL)
    VP_ASSERT(list_count(e->ips, ip) == 1, "a name of a valid line resolves to that line's address");
}
static void name_ipcount(ares_hosts_file_t *hf, const char *name, size_t cnt)
{
  ares_hosts_entry_t *e = ares_htable_strvp_get_direct(hf->hosthash, name);
  VP_ASSERT(e != NULL && ares_llist_len(e->ips) == cnt, "a name resolves to exactly the addresses of the lines naming it (or sharing an address/name with them)");
}
static void addr_canon(ares_hosts_file_t *hf, const char *ip, const char *canon)
{
  ares_hosts_entry_t *e = ares_htable_strvp_get_direct(hf->iphash, ip);
  VP_ASSERT(e != NULL, "the address of a valid line resolves back, whatever unrelated or malformed lines surround it");
  if (e != NULL)
    VP_ASSERT(ares_llist_len(e->hosts) >= 1 && ci_eq(ares_llist_first_val(e->hosts), canon), "an address resolves back to the first name of its (first) line");
}
static void addr_has_host(ares_hosts_file_t *hf, const char *ip, const char *host)
{
  ares_hosts_entry_t *e = ares_htable_strvp_get_direct(hf->iphash, ip);
  VP_ASSERT(e != NULL && list_count(e->hosts, host) >= 1, "an address lists every name and alias of its lines");
}
static void addr_hostcount(ares_hosts_file_t *hf, const char *ip, size_t cnt)
{
  ares_hosts_entry_t *e = ares_htable_strvp_get_direct(hf->iphash, ip);
  VP_ASSERT(e != NULL && ares_llist_len(e->hosts) == cnt, "an address lists exactly the distinct names of its lines: nothing from comments, other lines or junk");
}
static void same_entry(ares_hosts_file_t *hf, const char *name, const char *ip)
{
  void *a = ares_htable_strvp_get_direct(hf->hosthash, name), *b = ares_htable_strvp_get_direct(hf->iphash, ip);
  VP_ASSERT(a != NULL && a == b, "lines sharing a name or an address form one merged entry");
}
static void absent_name(ares_hosts_file_t *hf, const char *name)
{
  VP_ASSERT(ares_htable_strvp_get_direct(hf->hosthash, name) == NULL, "text in a comment / on a malformed line defines no name");
}
static void absent_addr(ares_hosts_file_t *hf, const char *ip)
{
  VP_ASSERT(ares_htable_strvp_get_direct(hf->iphash, ip) == NULL, "a malformed line defines no address");
}
static void count_names(ares_hosts_file_t *hf, size_t cnt)
{
  VP_ASSERT(ares_htable_strvp_num_keys(hf->hosthash) == cnt, "the table holds exactly the names of the valid lines");
}
static void count_addrs(ares_hosts_file_t *hf, size_t cnt)
{
  VP_ASSERT(ares_htable_strvp_num_keys(hf->iphash) == cnt, "the table holds exactly the addresses of the valid lines");
}

/* ---------- well-formedness of the whole result ---------- */
static void wellformed(ares_hosts_file_t *hf)
{
  size_t i, j;
  VP_BOUND(ares_htable_strvp_num_keys(hf->hosthash) <= MAXKEYS && ares_htable_strvp_num_keys(hf->iphash) <= MAXKEYS, "more keys than MAXKEYS");
  for (i = 0; i < MAXKEYS; i++) {
    void       *v   = NULL;
    const char *key = vp_strvp_nth(hf->hosthash, i, &v);
    if (key == NULL)
      break;
    {
      ares_hosts_entry_t *e = v;
      VP_ASSERT(e != NULL && e->ips != NULL && e->hosts != NULL && e->refcnt >= 1, "a name maps to a live entry");
      VP_ASSERT(ares_is_hostname(key) && key[0] != 0, "a stored name is a non-empty string of host-name characters");
      VP_ASSERT(list_count(e->hosts, key) >= 1, "a name maps to an entry that lists it");
#ifndef KF_c15_hosts_dup_alias
      VP_ASSERT(list_count(e->hosts, key) == 1, "FINDING c15_hosts_dup_alias: a name is listed once in its entry (\"Don't add a duplicate to the same "
                                                "entry\": ares_hosts_entry_isdup() compares the new name with the entry's ADDRESSES, so a repeated name "
                                                "becomes its own alias)");
#endif
      VP_ASSERT(ares_llist_len(e->ips) >= 1, "an entry has at least one address");
    }
  }
  for (i = 0; i < MAXKEYS; i++) {
    void       *v   = NULL;
    const char *key = vp_strvp_nth(hf->iphash, i, &v);
    size_t      rc  = 0;
    if (key == NULL)
      break;
    {
      ares_hosts_entry_t *e = v;
      char                norm[INET6_ADDRSTRLEN];
      VP_ASSERT(e != NULL && e->ips != NULL && e->hosts != NULL, "an address maps to a live entry");
      VP_ASSERT(list_count(e->ips, key) == 1, "an address maps to an entry that lists it once");
      VP_ASSERT(ares_llist_len(e->hosts) >= 1, "an entry has at least one name");
      VP_ASSERT(ares_normalize_ipaddr(key, norm, sizeof(norm)) && ci_eq(norm, key), "a stored address is a valid address in normalised form");
      for (j = 0; j < MAXKEYS; j++) {
        void *w = NULL;
        if (vp_strvp_nth(hf->iphash, j, &w) == NULL)
          break;
        if (w == v)
          rc++;
      }
      VP_ASSERT(e->refcnt == rc, "an entry's reference count equals the number of address keys that own it");
    }
  }
}

void harness(void)
{
  ares_hosts_file_t *hf = NULL;
  ares_status_t      st;

  vp_alloc_install();
  st = ares_parse_hosts("/h", &hf);
  VP_ASSERT(file_open == 0, "the hosts file is closed again");
  VP_ASSERT(st == ARES_SUCCESS && hf != NULL, "a readable hosts file is processed successfully whatever its lines look like");
  if (st == ARES_SUCCESS && hf != NULL) {
#ifdef KFONLY_c15_hosts_dup_alias
    {
      void       *v   = NULL;
      const char *key = vp_strvp_nth(hf->hosthash, 0, &v);
      VP_ASSUME(key != NULL && list_count(((ares_hosts_entry_t *)v)->hosts, key) > 1);
    }
#endif
    wellformed(hf);
    { CHECKS }
    if (ares_htable_strvp_num_keys(hf->hosthash) > 0) VP_WITNESS("names stored");
    if (ares_htable_strvp_num_keys(hf->iphash) > 1) VP_WITNESS("two addresses stored");
    if (ares_htable_strvp_num_keys(hf->hosthash) > NAMES0) VP_WITNESS("junk defined a name");
    ares_hosts_file_destroy(hf);
  }
  VP_ASSERT(vp_alloc_live == 0, "nothing is left allocated after ares_hosts_file_destroy");
  VP_WITNESS("end");
}
