/* C15 / c15_nsuri: parse_nameserver_uri() - the "dns://host:port?tcpport=N" form of a nameserver entry
 * (resolv.conf "nameserver", ares_set_servers_csv(), ares_set_servers_ports_csv()).
 * Real: ares_update_servers.c (TU included: static parse_nameserver_uri / parse_nameserver, ares_sconfig_t visible),
 *       ares_hosts_file.c (ares_dns_pton only), inet_net_pton.c (the REAL address converter on the job's concrete host
 *       text), str/ares_str.c, str/ares_buf.c, dsa/ares_llist.c, ares_library_init.c.
 * Stubs: the URI *parser* is abstract.  ares_uri_parse_buf() either says "not a URI" (ARES_EBADSTR, no object) or
 *       hands out ONE abstract URI object (consuming the whole entry as the real parser does) with
 *         scheme   = "dns" or "https" (arbitrary choice),
 *         host     = the job's concrete text HOST (what ares_uri_set_host() can produce: a normalised address, an
 *                    address with "%scope" (alnum scope, any length), or a host name that is no address),
 *         port     = arbitrary unsigned short,
 *         tcpport  = absent, or an ARBITRARY text of 0..TPMAX bytes (any non-NUL byte values).
 *       ares_uri_destroy() is a ghost: the object must be released exactly once on every path.
 *       MODE 1 only: ares_array = array_ref.c, interface lookups = arbitrary result (as nameserver.c).
 *
 * MODE 0: one real parse_nameserver_uri() into an ares_sconfig_t whose previous content is ARBITRARY (the only
 *   caller, ares_sconfig_append_fromstr(), passes an uninitialised stack object).  Independent oracle:
 *   success  => scheme was dns and HOST is an address; family/address bytes equal the job's expected bytes (computed
 *               by Python's ipaddress module in jobs.py, not by c-ares); udp_port == URI port;
 *               tcp_port == udp_port when there is no tcpport key; with a tcpport key its text is 1..5 decimal digits
 *               with value <= 65535 and tcp_port equals that value  [FINDING c15_uri_tcpport: the sibling parser
 *               parse_nameserver() rejects a port text that is empty, non-numeric or above 65535 with ARES_EBADSTR
 *               (fix b6443f5); the URI form must not turn such a text into some other port];
 *               ll_iface is a NUL-terminated string inside ll_iface[IF_NAMESIZE] and equals the host's scope (cut to
 *               IF_NAMESIZE-1 characters) or is EMPTY when the host has no scope
 *               [FINDING c15_uri_iface_uninit: without "%scope" ll_iface is never written, so the caller's
 *               uninitialised stack bytes are handed to ares_sconfig_append() as interface name].
 *   failure  => ARES_EBADSTR; and it is no over-rejection: a dns URI whose host is an address and whose tcpport is
 *               absent or well-formed is accepted.
 * MODE 1: ares_sconfig_append_fromstr() on the concrete entry "dns://x" with the same abstract URI (no tcpport key):
 *   the stored server equals host/port; a link-local host WITHOUT scope is silently skipped (documented in
 *   ares_sconfig_append: "we require an interface") - with c15_uri_iface_uninit the uninitialised bytes are looked up
 *   as interface name instead. */
#include "vp.h"
#include "ares_update_servers.c"

#ifndef MODE
#  define MODE 0
#endif
#ifndef HOST
#  define HOST "1.2.3.4"
#endif
#ifndef XFAM /* expected family: 4, 6, or 0 = HOST is not an address */
#  define XFAM 4
#endif
#ifndef XADDR
#  define XADDR 1, 2, 3, 4
#endif
#ifndef XSCOPE /* expected ll_iface text ("" = host has no scope) */
#  define XSCOPE ""
#endif
#ifndef TPMAX
#  define TPMAX 6
#endif

struct ares_uri {
  int            dns;
  unsigned short port;
  int            has_tcpport;
};

static struct ares_uri g_uri;
static int             g_uri_live;    /* ghost: object handed out and not yet released */
static int             g_uri_created; /* ghost */
static char            g_tcpport[TPMAX + 1];
static size_t          g_tplen;

ares_status_t ares_uri_parse_buf(ares_uri_t **out, ares_buf_t *buf)
{
  VP_ASSERT(out != NULL && buf != NULL, "URI parser gets a result slot and a buffer");
  *out = NULL;
#if MODE == 0
  if (vp_bool())
    return ARES_EBADSTR; /* not a URI */
#endif
  /* MODE 1: always a URI (the "not a URI" fall-back to parse_nameserver is what c15_nameserver_fromstr_* cover; a symbolic
   * choice here leaves the entry buffer at a symbolic offset and the fall-back parser then reads symbolic text) */
  VP_ASSERT(!g_uri_created, "the URI parser runs once per entry");
  /* the real parser consumes the entry on success */
  ares_buf_consume(buf, ares_buf_len(buf));
  g_uri_created = 1;
  g_uri_live    = 1;
  *out          = &g_uri;
  return ARES_SUCCESS;
}

const char *ares_uri_get_scheme(const ares_uri_t *uri)
{
  VP_ASSERT(uri == &g_uri && g_uri_live, "URI accessors are used on the live URI object only");
  return g_uri.dns ? "dns" : "https";
}

const char *ares_uri_get_host(const ares_uri_t *uri)
{
  VP_ASSERT(uri == &g_uri && g_uri_live, "URI accessors are used on the live URI object only");
  return HOST;
}

unsigned short ares_uri_get_port(const ares_uri_t *uri)
{
  VP_ASSERT(uri == &g_uri && g_uri_live, "URI accessors are used on the live URI object only");
  return g_uri.port;
}

const char *ares_uri_get_query_key(const ares_uri_t *uri, const char *key)
{
  VP_ASSERT(uri == &g_uri && g_uri_live, "URI accessors are used on the live URI object only");
  VP_ASSERT(key != NULL && strcmp(key, "tcpport") == 0, "the only query key a nameserver URI is asked for is tcpport");
  return g_uri.has_tcpport ? g_tcpport : NULL;
}

void ares_uri_destroy(ares_uri_t *uri)
{
  if (uri == NULL)
    return;
  VP_ASSERT(uri == &g_uri && g_uri_live, "the URI object is released once, never twice");
  g_uri_live = 0;
}

#if MODE == 1
static unsigned int if_nametoindex_stub(const char *ifname, void *user_data)
{
  (void)user_data;
  VP_ASSERT(ifname != NULL && ares_strlen(ifname) < IF_NAMESIZE, "interface name handed to the lookup is a NUL-terminated string shorter than IF_NAMESIZE");
  return vp_u32();
}
static const char *if_indextoname_stub(unsigned int ifindex, char *ifname_buf, size_t ifname_buf_len, void *user_data)
{
  (void)user_data;
  if (ifindex == 0 || vp_bool() || ifname_buf_len < 3)
    return NULL;
  ifname_buf[0] = 'e';
  ifname_buf[1] = (char)('0' + (vp_u8() & 7));
  ifname_buf[2] = 0;
  return ifname_buf;
}
#endif

static int isdig(char c) { return c >= '0' && c <= '9'; }

void harness(void)
{
  static const unsigned char xaddr[] = { XADDR };
  static const char          xscope[] = XSCOPE;
  size_t                     i;

  vp_alloc_install();
  g_uri.dns         = vp_bool();
  g_uri.port        = vp_u16();
#if MODE == 0
  g_uri.has_tcpport = vp_bool();
#else
  g_uri.has_tcpport = 0;
#endif
  g_tplen = vp_range(0, TPMAX);
  for (i = 0; i < TPMAX; i++) {
    g_tcpport[i] = (char)vp_u8();
    if (i < g_tplen)
      VP_ASSUME(g_tcpport[i] != 0);
    else
      g_tcpport[i] = 0;
  }
  g_tcpport[TPMAX] = 0;

#if MODE == 0
  {
    static const unsigned char entry[] = "dns://x"; /* content irrelevant: the URI parser is abstract */
    ares_sconfig_t             s;
    ares_status_t              st;
    ares_buf_t                *buf = ares_buf_create_const(entry, sizeof(entry) - 1);
    int                        tp_wellformed;
    unsigned long              tpval = 0;
    VP_ASSUME(buf != NULL);

    /* the caller's object is an uninitialised local: arbitrary previous content */
    vp_bytes((unsigned char *)&s, sizeof(s));
#  ifdef KF_c15_uri_iface_uninit
    memset(&s, 0, sizeof(s)); /* known finding excluded: as if the caller had cleared the object */
#  endif
#  ifdef KFONLY_c15_uri_iface_uninit
    VP_ASSUME(sizeof(XSCOPE) == 1);
#  endif

    /* independent reading of the tcpport text: 1..5 decimal digits, value <= 65535 */
    tp_wellformed = g_tplen >= 1 && g_tplen <= 5;
    for (i = 0; i < TPMAX; i++) {
      if (i < g_tplen) {
        if (!isdig(g_tcpport[i]))
          tp_wellformed = 0;
        else
          tpval = tpval * 10 + (unsigned long)(g_tcpport[i] - '0');
      }
    }
    if (tpval > 65535)
      tp_wellformed = 0;
#  ifdef KF_c15_uri_tcpport
    VP_ASSUME(!g_uri.has_tcpport || tp_wellformed);
#  endif
#  ifdef KFONLY_c15_uri_tcpport
    VP_ASSUME(g_uri.has_tcpport && !tp_wellformed);
#  endif

    st = parse_nameserver_uri(buf, &s);

    VP_ASSERT(st == ARES_SUCCESS || st == ARES_EBADSTR, "parse_nameserver_uri returns success or a bad-string error");
    VP_ASSERT(g_uri_live == 0, "the URI object is released on every path");
    if (!g_uri_created) {
      VP_ASSERT(st != ARES_SUCCESS, "an entry the URI parser rejects is not accepted as a URI nameserver");
      VP_WITNESS("not a URI");
    }
    if (st == ARES_SUCCESS) {
      VP_ASSERT(g_uri.dns, "only the dns scheme is a nameserver URI");
      VP_ASSERT(XFAM != 0, "a host that is not an IP address is rejected");
#  if XFAM == 4
      VP_ASSERT(s.addr.family == AF_INET, "IPv4 host gives an AF_INET server");
      VP_ASSERT(memcmp(&s.addr.addr.addr4, xaddr, 4) == 0, "server address equals the URI host's address");
      VP_WITNESS("ipv4 accepted");
#  elif XFAM == 6
      VP_ASSERT(s.addr.family == AF_INET6, "IPv6 host gives an AF_INET6 server");
      VP_ASSERT(memcmp(&s.addr.addr.addr6, xaddr, 16) == 0, "server address equals the URI host's address");
      VP_WITNESS("ipv6 accepted");
#  endif
      VP_ASSERT(s.udp_port == g_uri.port, "UDP port equals the URI port");
      if (!g_uri.has_tcpport) {
        VP_ASSERT(s.tcp_port == g_uri.port, "without a tcpport key the TCP port equals the URI port");
      } else {
        VP_ASSERT(tp_wellformed, "FINDING c15_uri_tcpport: an accepted tcpport value is 1..5 decimal digits not above 65535 "
                                 "(parse_nameserver rejects such a port text; here atoi()+cast silently turns it into another port)");
        if (tp_wellformed) VP_ASSERT(s.tcp_port == (unsigned short)tpval, "TCP port equals the decimal value of the tcpport text");
        if (tpval != g_uri.port) VP_WITNESS("tcp port differs from udp port");
      }
      for (i = 0; i < IF_NAMESIZE && s.ll_iface[i] != 0; i++)
        ;
      VP_ASSERT(i < IF_NAMESIZE, "FINDING c15_uri_iface_uninit: interface name is NUL-terminated inside ll_iface[IF_NAMESIZE]");
      {
        int same = 1;
        for (i = 0; i < sizeof(xscope); i++) /* includes the terminating NUL */
          if (s.ll_iface[i] != xscope[i])
            same = 0;
        VP_ASSERT(same, "FINDING c15_uri_iface_uninit: interface name equals the host's %scope (cut to IF_NAMESIZE-1) and is empty "
                        "when the host has none (it is not whatever the caller's uninitialised object contained)");
      }
      if (sizeof(XSCOPE) > 1) VP_WITNESS("scope given");
    } else {
      if (g_uri_created && g_uri.dns && XFAM != 0 && (!g_uri.has_tcpport || tp_wellformed))
        VP_ASSERT(0, "a well-formed dns:// nameserver URI is accepted");
      if (g_uri_created && !g_uri.dns) VP_WITNESS("other scheme rejected");
      if (g_uri_created && g_uri.dns) VP_WITNESS("dns URI rejected");
    }
    ares_buf_destroy(buf);
  }
#else
  {
    static ares_channel_t ch;
    ares_llist_t         *list = NULL;
    ares_status_t         st;
    ares_bool_t           ign = vp_bool() ? ARES_TRUE : ARES_FALSE;
    if (vp_bool()) {
      ch.sock_funcs.aif_nametoindex = if_nametoindex_stub;
      ch.sock_funcs.aif_indextoname = if_indextoname_stub;
    }
#  ifdef KFONLY_c15_uri_tcpport
    VP_ASSUME(0); /* no tcpport key in MODE 1 */
#  endif
#  ifdef LLNOSCOPE /* job's host is link-local without %scope: the region of c15_uri_iface_uninit */
#    ifdef KF_c15_uri_iface_uninit
    VP_ASSUME(!g_uri.dns);
#    endif
#  else
#    ifdef KFONLY_c15_uri_iface_uninit
    VP_ASSUME(0);
#    endif
#  endif
    st = ares_sconfig_append_fromstr(&ch, &list, "dns://x", ign);
    VP_ASSERT(g_uri_live == 0, "the URI object is released on every path");
    if (ign)
      VP_ASSERT(st == ARES_SUCCESS, "with ignore_invalid a rejected entry is skipped, never an error");
    else
      VP_ASSERT(st == ARES_SUCCESS || st == ARES_EBADSTR || st == ARES_EFORMERR, "the setter path returns success or a bad-string/format error");
    VP_ASSERT(ares_llist_len(list) <= 1, "one entry gives at most one server");
    if (ares_llist_len(list) == 1) {
      const ares_sconfig_t *s = ares_llist_first_val(list);
      VP_ASSERT(g_uri_created && g_uri.dns && XFAM != 0, "a server is stored only for a dns URI whose host is an address");
      VP_ASSERT(s->addr.family == (XFAM == 4 ? AF_INET : AF_INET6), "stored family equals the host's");
      VP_ASSERT(memcmp(&s->addr.addr, xaddr, XFAM == 4 ? 4 : 16) == 0, "stored address equals the host's");
      VP_ASSERT(s->udp_port == g_uri.port && s->tcp_port == g_uri.port, "stored ports equal the URI port");
      if (ares_addr_is_linklocal(&s->addr)) {
#  ifndef KF_c15_uri_iface_uninit
        VP_ASSERT(sizeof(XSCOPE) > 1, "FINDING c15_uri_iface_uninit: a link-local server without %scope is skipped (an interface is required), "
                                      "it is not stored under an interface name taken from uninitialised memory");
#  endif
        VP_ASSERT(s->ll_scope != 0 && s->ll_iface[0] != 0, "a stored link-local server carries interface name and scope");
        VP_WITNESS("link-local stored");
      }
      VP_WITNESS("server stored");
    } else {
      VP_WITNESS("nothing stored");
    }
    ares_llist_destroy(list);
  }
#endif
  VP_ASSERT(vp_alloc_live == 0, "URI nameserver parsing leaves no allocation behind");
  VP_WITNESS("end");
}
