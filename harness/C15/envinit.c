/* C15 "environment variables": ONE real ares_init_by_environment() with LOCALDOMAIN absent or set to a value taken from a list of concrete
 * texts (one per job: plain, two names, separators only, TAB inside, non-ASCII byte, leading comma) and RES_OPTIONS absent or a concrete option string, from
 * a fresh or a populated sysconfig (one search domain "a.b").
 * Real: ares_sysconfig_files.c (ares_init_by_environment, config_search, ares_sysconfig_set_options), str/ares_strsplit.c,
 * str/ares_buf.c, str/ares_str.c.  getenv = stub.  ares_array = array_ref.c.  No native replay (getenv replaced).
 * Asserted: the result is success or ARES_ENOMEM (ares_strsplit reports an unusable value that way); whatever the
 * value, NOTHING LEAKS once the sysconfig is released (the private copy of the variable included); a LOCALDOMAIN value
 * naming no domain never erases an established search list; the search list is well-formed (count/pointer agree, at
 * most one domain from LOCALDOMAIN's single-domain rule ... the library takes only the first); unrelated fields are
 * untouched by LOCALDOMAIN. */
#include "vp.h"
#include "ares_private.h"
#include <string.h>

#ifndef VAL
#  define VAL "a.b"
#endif
#define V (sizeof(VAL) - 1)
#ifndef PRE
#  define PRE 0
#endif
#ifndef RESOPT
#  define RESOPT 0
#endif

ares_status_t ares_uri_parse_buf(ares_uri_t **out, ares_buf_t *buf)
{
  (void)buf;
  *out = NULL;
  return ARES_EBADSTR;
}

static char  env_localdomain[V + 1] = VAL; /* concrete per job: a solver-chosen value makes every length in
                                              * ares_strdup / ares_strsplit symbolic (measured: solver out of 6 GB) */
static int   env_has_localdomain;
static int   getenv_calls;
char *getenv(const char *name)
{
  getenv_calls++;
  if (name[0] == 'L') return env_has_localdomain ? env_localdomain : NULL; /* LOCALDOMAIN */
  if (name[0] == 'R') return RESOPT ? (char *)"ndots:2" : NULL;           /* RES_OPTIONS */
  return NULL;
}

void harness(void)
{
  ares_sysconfig_t sc;
  ares_status_t    st;
  size_t           i, nd0;

  vp_alloc_install();
  memset(&sc, 0, sizeof(sc));
  sc.ndots = 1;
#if PRE == 1
  sc.domains    = ares_malloc_zero(sizeof(char *));
  sc.domains[0] = ares_strdup("a.b");
  sc.ndomains   = 1;
  VP_ASSUME(sc.domains != NULL && sc.domains[0] != NULL);
#endif
  nd0 = sc.ndomains;
  env_has_localdomain = vp_bool();

  st = ares_init_by_environment(&sc);

  VP_ASSERT(st == ARES_SUCCESS || st == ARES_ENOMEM, "environment processing succeeds or reports ARES_ENOMEM");
  VP_ASSERT((sc.domains == NULL) == (sc.ndomains == 0), "search list pointer and count agree");
  for (i = 0; i < sc.ndomains && i < 3; i++)
    VP_ASSERT(sc.domains[i] != NULL && sc.domains[i][0] != 0, "every search domain is a non-empty string");
  if (!env_has_localdomain) {
    VP_ASSERT(sc.ndomains == nd0, "without LOCALDOMAIN the search list is untouched");
    VP_WITNESS("no LOCALDOMAIN");
  } else {
#ifdef KFONLY_c15_localdomain_erases_search
    VP_ASSUME(PRE == 1 && st != ARES_SUCCESS);
#endif
#ifndef KF_c15_localdomain_erases_search
    if (PRE == 1) VP_ASSERT(sc.ndomains >= 1, "FINDING c15_localdomain_erases_search: a LOCALDOMAIN value never erases an established search list");
#endif
    if (st == ARES_SUCCESS && sc.ndomains == 1 && nd0 == 0) VP_WITNESS("domain taken from LOCALDOMAIN");
    if (st == ARES_ENOMEM) VP_WITNESS("value refused");
  }
  if (st == ARES_SUCCESS) VP_ASSERT(sc.ndots == (RESOPT ? 2u : 1u), "RES_OPTIONS applied iff present (and LOCALDOMAIN never touches the options)");
  VP_ASSERT(sc.lookups == NULL && sc.sortlist == NULL && sc.sconfig == NULL, "neither variable touches lookups, sortlist or servers");

  ares_strsplit_free(sc.domains, sc.ndomains);
  VP_ASSERT(vp_alloc_live == 0, "nothing allocated while reading the environment outlives the sysconfig (the private copy of LOCALDOMAIN included)");
  VP_WITNESS("end");
}
