/* C15 / c15_nsswitch, c15_svcconf, c15_procbuf, c15_cfgfile: the nsswitch.conf / netsvc.conf / svc.conf line readers
 * parse_nsswitch_line() / parse_svcconf_line() and the multi-line driver ares_sysconfig_process_buf() /
 * process_config_lines() of ares_sysconfig_files.c.
 * Real: ares_sysconfig_files.c (TU included: the statics are called directly), str/ares_buf.c (split, tag/fetch, load_file),
 *       str/ares_str.c, ares_library_init.c.
 * Stubs: ares_array = array_ref.c; memchr/strtoul = libc_extra.c; MODE 3: fopen/setvbuf/fseek/ftell/fread/fclose = an
 *        in-memory file holding TEXT (or a missing / unreadable file).  Nothing else is reached.
 *
 * MODE 0 (frame; FORM 0 = nsswitch "hosts:", FORM 1 = svc.conf "hosts="): ONE real call on the line
 *        KW VPREFIX + V ARBITRARY bytes (any value except line feed; KW and VPREFIX concrete per job)
 *   from a freshly initialised sysconfig (PRE 0) or a populated one (PRE 1: one search domain, lookups "bf" or "f", one
 *   sortlist entry, an opaque server list pointer, arbitrary option scalars).  Oracle:
 *   - the call returns ARES_SUCCESS (documented: only ARES_ENOMEM otherwise, and no allocation fails);
 *   - lookups afterwards equals what an INDEPENDENT reading of the line gives (harness tokenizer: value split at the
 *     format's separators, tokens trimmed, compared case-insensitively with dns|bind|resolv|resolve -> 'b' and
 *     files|file|local -> 'f', first occurrence order, duplicates dropped; a line whose key is not exactly "hosts", or that
 *     names no recognised source, or that carries a non-printable byte in a source token leaves the previous value);
 *     in particular it is NULL (fresh only) / the previous value, or one of "b","f","bf","fb", and an established order
 *     is never erased;
 *   - every other field (domains, sortlist, server list, option scalars) is untouched; nothing leaks.
 * MODE 2 (driver): ares_sysconfig_process_buf() on the CONCRETE text TEXT with a recording callback: the delivered lines
 *   are exactly EXP0..EXP(NEXP-1) (computed by Python in jobs.py: split at '\n', white space trimmed at both ends, blank
 *   lines dropped; comment lines are delivered - stripping them is the line readers' duty and is checked below), each
 *   once, in order; a callback failure at an arbitrary line stops the walk and is returned unchanged.
 * MODE 3 (file driver + real line reader): process_config_lines(TEXT as file, parse_nsswitch_line or parse_svcconf_line):
 *   missing file -> ARES_ENOTFOUND, unreadable -> ARES_EFILE, otherwise ARES_SUCCESS and lookups == EXPLOOKUPS (Python:
 *   comment lines and malformed lines change nothing, the LAST hosts line naming a recognised source wins); the file is
 *   closed again; nothing leaks.  File presence is concrete per job (-DHAVEFILE). */
#include "vp.h"
#include <stdio.h>
#include <errno.h>
#include "ares_sysconfig_files.c"

#ifndef MODE
#  define MODE 0
#endif
#ifndef FORM
#  define FORM 0
#endif
#ifndef KW
#  define KW "hosts:"
#endif
#ifndef VPREFIX
#  define VPREFIX ""
#endif
#ifndef V
#  define V 4
#endif
#ifndef PRE
#  define PRE 0
#endif
#ifndef KEYOK /* is the key of KW exactly "hosts" (after trimming)?  set by jobs.py */
#  define KEYOK 1
#endif
#ifndef TEXT
#  define TEXT "hosts: files dns\n# x\n"
#endif
#ifndef NEXP
#  define NEXP 2
#endif
#ifndef EXP0
#  define EXP0 "hosts: files dns"
#endif
#ifndef EXP1
#  define EXP1 "# x"
#endif
#ifndef EXP2
#  define EXP2 ""
#endif
#ifndef EXP3
#  define EXP3 ""
#endif
#ifndef HAVEFILE
#  define HAVEFILE 1
#endif
#ifndef EXPLOOKUPS
#  define EXPLOOKUPS "fb"
#endif

static ares_channel_t ch;

static int str_eq(const char *a, const char *b)
{
  size_t i;
  if (a == NULL || b == NULL)
    return a == b;
  for (i = 0; i < 16; i++) {
    if (a[i] != b[i])
      return 0;
    if (a[i] == 0)
      return 1;
  }
  return 0;
}

#if MODE == 0
/* ---------- independent reading of a "hosts" value ---------- */
static int r_isspace(unsigned char c) { return c == ' ' || c == '\t' || c == '\r' || c == '\n' || c == '\v' || c == '\f'; }
static int r_issep(unsigned char c) { return FORM == 0 ? (c == ' ' || c == '\t') : (c == ','); }
static unsigned char r_lower(unsigned char c) { return (c >= 'A' && c <= 'Z') ? (unsigned char)(c + 32) : c; }
static int r_word(const unsigned char *t, size_t n, const char *w)
{
  size_t i;
  for (i = 0; i < n; i++) {
    if (w[i] == 0 || r_lower(t[i]) != (unsigned char)w[i])
      return 0;
  }
  return w[n] == 0;
}
/* 'b', 'f' or 0 */
static char r_classify(const unsigned char *t, size_t n)
{
  if (r_word(t, n, "dns") || r_word(t, n, "bind") || r_word(t, n, "resolv") || r_word(t, n, "resolve"))
    return 'b';
  if (r_word(t, n, "files") || r_word(t, n, "file") || r_word(t, n, "local"))
    return 'f';
  return 0;
}
/* out[3]: "" when the line names no source / is to be ignored */
static void r_read(const unsigned char *v, size_t n, char out[3])
{
  size_t p = 0, cnt = 0;
  int    bad = 0;
  out[0] = out[1] = out[2] = 0;
  while (p < n) {
    size_t s = p, e, k;
    while (p < n && !r_issep(v[p]))
      p++;
    e = p;
    if (p < n)
      p++; /* separator */
    while (s < e && r_isspace(v[s]))
      s++;
    while (e > s && r_isspace(v[e - 1]))
      e--;
    if (e == s)
      continue;
    for (k = s; k < e; k++)
      if (v[k] < 0x20 || v[k] > 0x7e)
        bad = 1;
    {
      char c = r_classify(v + s, e - s);
      if (c != 0 && !(cnt > 0 && out[0] == c) && !(cnt > 1 && out[1] == c) && cnt < 2)
        out[cnt++] = c;
    }
  }
  if (bad)
    out[0] = out[1] = 0;
}
#endif

#if MODE == 2
static const char *const g_exp[4] = { EXP0, EXP1, EXP2, EXP3 };
static size_t            g_seen;
static size_t            g_fail_at; /* 0 = never; else the callback fails at this line (1-based) */
static ares_status_t record_cb(const ares_channel_t *channel, ares_sysconfig_t *sysconfig, ares_buf_t *line)
{
  size_t               len = 0, i, el;
  const unsigned char *p;
  VP_ASSERT(channel == &ch && sysconfig != NULL && line != NULL, "the driver passes channel, sysconfig and a line buffer through");
  VP_ASSERT(g_seen < NEXP, "no more lines are delivered than the text has non-blank lines");
  p  = ares_buf_peek(line, &len);
  el = strlen(g_exp[g_seen < NEXP ? g_seen : 0]);
  VP_ASSERT(len == el, "a delivered line is the text between two line feeds with surrounding white space trimmed");
  for (i = 0; i < len && i < el; i++)
    VP_ASSERT(p[i] == (unsigned char)g_exp[g_seen < NEXP ? g_seen : 0][i], "delivered line bytes equal the expected line, in order");
  g_seen++;
  if (g_fail_at != 0 && g_seen == g_fail_at)
    return ARES_ENOMEM;
  return ARES_SUCCESS;
}
#endif

#if MODE == 3
static int  have_file, file_open, file_pos_end, file_errno_noent;
static FILE the_file;
#  define TL (sizeof(TEXT) - 1)
FILE *fopen(const char *path, const char *mode)
{
  (void)mode;
  VP_ASSERT(path != NULL && path[0] == '/' && path[1] == 'c' && path[2] == 0, "the driver opens the file it was given");
  if (!have_file) {
    errno = file_errno_noent ? ENOENT : EACCES;
    return NULL;
  }
  file_open++;
  return &the_file;
}
int    setvbuf(FILE *fp, char *buf, int mode, size_t size) { (void)fp; (void)buf; (void)mode; (void)size; return 0; }
int    fseek(FILE *fp, long off, int whence) { (void)fp; (void)off; file_pos_end = (whence == SEEK_END); return 0; }
long   ftell(FILE *fp) { (void)fp; return file_pos_end ? (long)TL : 0; }
size_t fread(void *ptr, size_t size, size_t nmemb, FILE *fp)
{
  static const char txt[] = TEXT;
  unsigned char    *p = ptr;
  size_t            i;
  (void)fp;
  VP_ASSERT(size == 1 && nmemb == TL, "the whole file is read into a buffer of the announced size");
  for (i = 0; i < TL; i++)
    p[i] = (unsigned char)txt[i];
  return TL;
}
int fclose(FILE *fp) { (void)fp; file_open--; return 0; }
#endif

void harness(void)
{
  vp_alloc_install();
#if MODE == 0
  {
    static const char kw[] = KW VPREFIX;
    static int        dummy_servers;
    ares_sysconfig_t  A;
    unsigned char    *x;
    size_t            n = 0, i, xl = sizeof(kw) - 1 + V, vstart;
    char              want[3];
    char             *dom0 = NULL;
    char            **doms = NULL;
    struct apattern  *sl   = NULL;
    const char       *prelook = NULL;
    size_t            ndots, tries, timeout_ms;
    ares_bool_t       rotate, usevc;
    ares_buf_t       *line;
    ares_status_t     st;

    x = vp_malloc(xl); /* exact size: the line is length-delimited, not NUL-terminated */
    for (i = 0; i < sizeof(kw) - 1; i++)
      x[n++] = (unsigned char)kw[i];
    for (i = 0; i < V; i++) {
      x[n] = vp_u8();
      VP_ASSUME(x[n] != '\n'); /* the line splitter never passes a line feed */
      n++;
    }
    /* value = everything after the first ':' / '=' */
    for (vstart = 0; vstart < sizeof(KW) - 1 && kw[vstart] != (FORM == 0 ? ':' : '='); vstart++)
      ;
    vstart++;

    memset(&A, 0, sizeof(A));
    A.ndots = 1;
#  if PRE == 1
    doms       = ares_malloc_zero(sizeof(char *));
    dom0       = ares_strdup("a.b");
    VP_ASSUME(doms != NULL && dom0 != NULL);
    doms[0]    = dom0;
    A.domains  = doms;
    A.ndomains = 1;
    prelook    = vp_bool() ? "bf" : "f";
    A.lookups  = ares_strdup(prelook);
    sl         = ares_malloc_zero(sizeof(*sl));
    VP_ASSUME(A.lookups != NULL && sl != NULL);
    sl[0].addr.family = AF_INET;
    memcpy(&sl[0].addr.addr.addr4, "\x0a\x00\x00\x00", 4);
    sl[0].mask  = 8;
    A.sortlist  = sl;
    A.nsortlist = 1;
    A.sconfig   = (ares_llist_t *)&dummy_servers; /* opaque: a line reader has no business with the server list */
#  endif
    ndots = A.ndots = vp_size();
    tries = A.tries = vp_size();
    timeout_ms = A.timeout_ms = vp_size();
    rotate = A.rotate = vp_bool() ? ARES_TRUE : ARES_FALSE;
    usevc = A.usevc = vp_bool() ? ARES_TRUE : ARES_FALSE;

    r_read(x + vstart, xl - vstart, want);
    if (!KEYOK)
      want[0] = 0;

    line = ares_buf_create_const(x, xl);
    VP_ASSUME(line != NULL);
#  if FORM == 0
    st = parse_nsswitch_line(&ch, &A, line);
#  else
    st = parse_svcconf_line(&ch, &A, line);
#  endif
    ares_buf_destroy(line);

    VP_ASSERT(st == ARES_SUCCESS, "a configuration line never aborts initialisation while memory is available");
    /* shape of the result, straight from the property */
    if (A.lookups != NULL)
      VP_ASSERT(str_eq(A.lookups, "b") || str_eq(A.lookups, "f") || str_eq(A.lookups, "bf") || str_eq(A.lookups, "fb") || str_eq(A.lookups, prelook),
                "lookup order is one of b, f, bf, fb (or the previous one)");
#  if PRE == 1
    VP_ASSERT(A.lookups != NULL, "an established lookup order is never erased by a hosts line");
#  endif
    /* exact value against the independent reading */
    if (want[0] == 0) {
      VP_ASSERT(str_eq(A.lookups, prelook), "a line that names no recognised source (or is malformed / not a hosts line) leaves the lookup order alone");
      VP_WITNESS("line without effect");
    } else {
      VP_ASSERT(str_eq(A.lookups, want), "lookup order equals the recognised sources of the line, first occurrence order, no duplicates");
      VP_WITNESS("line took effect");
      if (want[1] != 0) VP_WITNESS("two sources");
    }
    VP_ASSERT(A.domains == doms && A.ndomains == (PRE ? 1 : 0) && (doms == NULL || (doms[0] == dom0 && str_eq(dom0, "a.b"))),
              "search list is independent of a hosts line");
    VP_ASSERT(A.sortlist == sl && A.nsortlist == (PRE ? 1 : 0) && (sl == NULL || (sl[0].mask == 8 && sl[0].addr.family == AF_INET)),
              "sortlist is independent of a hosts line");
    VP_ASSERT(A.sconfig == (PRE ? (ares_llist_t *)&dummy_servers : NULL), "server list is independent of a hosts line");
    VP_ASSERT(A.ndots == ndots && A.tries == tries && A.timeout_ms == timeout_ms && A.rotate == rotate && A.usevc == usevc,
              "resolver options are independent of a hosts line");
    ares_free(A.lookups);
    ares_free(dom0);
    ares_free(doms);
    ares_free(sl);
    vp_free(x);
  }
#elif MODE == 2
  {
    static const unsigned char text[] = TEXT;
    ares_sysconfig_t           A;
    ares_buf_t                *buf = ares_buf_create_const(text, sizeof(text) - 1);
    ares_status_t              st;
    VP_ASSUME(buf != NULL);
    memset(&A, 0, sizeof(A));
    g_fail_at = vp_range(0, NEXP);
    st        = ares_sysconfig_process_buf(&ch, &A, buf, record_cb);
    if (g_fail_at == 0) {
      VP_ASSERT(st == ARES_SUCCESS, "a text whose lines are all accepted is processed successfully");
      VP_ASSERT(g_seen == NEXP, "every non-blank line is delivered exactly once");
      VP_WITNESS("all lines delivered");
    } else {
      VP_ASSERT(st == ARES_ENOMEM, "a line reader's failure is returned unchanged");
      VP_ASSERT(g_seen == g_fail_at, "no line is delivered after a line reader failed");
      VP_WITNESS("stopped at failing line");
    }
    ares_buf_destroy(buf);
  }
#else
  {
    ares_sysconfig_t A;
    ares_status_t    st;
    memset(&A, 0, sizeof(A));
    /* concrete per job: a symbolic choice merges at ares_buf_load_file()'s exit and turns the file content into
     * ite(have_file, byte, unset), i.e. symbolic text for everything downstream */
    have_file        = HAVEFILE;
    file_errno_noent = vp_bool();
#  if FORM == 0
    st = process_config_lines(&ch, "/c", &A, parse_nsswitch_line);
#  else
    st = process_config_lines(&ch, "/c", &A, parse_svcconf_line);
#  endif
    VP_ASSERT(file_open == 0, "the configuration file is closed again");
    if (!have_file) {
      VP_ASSERT(st == (file_errno_noent ? ARES_ENOTFOUND : ARES_EFILE), "missing file -> ARES_ENOTFOUND, unreadable file -> ARES_EFILE");
      VP_ASSERT(A.lookups == NULL, "no file, no effect");
      VP_WITNESS("no file");
    } else {
      VP_ASSERT(st == ARES_SUCCESS, "a readable file is processed successfully whatever its lines look like");
      if (sizeof(EXPLOOKUPS) == 1)
        VP_ASSERT(A.lookups == NULL, "a file without a usable hosts line sets no lookup order");
      else
        VP_ASSERT(str_eq(A.lookups, EXPLOOKUPS), "lookup order is that of the last usable hosts line; comments, blank and malformed lines change nothing");
      VP_WITNESS("file processed");
    }
    ares_free(A.lookups);
  }
#endif
  VP_ASSERT(vp_alloc_live == 0, "configuration line parsing leaves no allocation behind");
  VP_WITNESS("end");
}
