/* C15 / c15_hostaliases: ares_lookup_hostaliases() on an arbitrary HOSTALIASES file.
 * Real: ares_search.c (ares_lookup_hostaliases), str/ares_buf.c (ares_buf_load_file, split, tag/fetch), str/ares_str.c.
 * Stubs: getenv("HOSTALIASES") = a path or NULL; the C stream functions under ares_buf_load_file (fopen/setvbuf/fseek/
 *        ftell/fread/fclose) = an in-memory file whose content is PREFIX (concrete) + FL arbitrary bytes, or a missing
 *        file; ares_array = array_ref.c; strcasecmp = libc_extra-style loop when CBMC has no model.
 * Oracle: result is SUCCESS with a NUL-terminated, non-empty alias made of host-name characters (at most 255 long), or
 * ENOTFOUND with *alias == NULL; the fixed hostname[64]/fqdn[256] buffers are never overrun (exact pointer checks);
 * nothing leaks.  No native replay (getenv/stdio are replaced). */
#include "vp.h"
#include "ares_private.h"
#include <stdio.h>
#include <string.h>
#include <errno.h>

#ifndef FL
#  define FL 6
#endif
#ifndef PREFIX
#  define PREFIX ""
#endif
#ifndef NAME
#  define NAME "ab"
#endif
#ifndef CHK
#  define CHK (FL + 1) /* alias characters checked one by one (the long-buffer jobs check the length only) */
#endif
#define PL (sizeof(PREFIX) - 1)
#define N  (PL + FL)

static int have_env, have_file, file_open, file_pos_end;
static FILE the_file;

char *getenv(const char *name)
{
  (void)name;
  return have_env ? (char *)"/h" : NULL;
}
FILE *fopen(const char *path, const char *mode)
{
  (void)path; (void)mode;
  if (!have_file) {
    errno = vp_bool() ? ENOENT : EACCES;
    return NULL;
  }
  file_open++;
  return &the_file;
}
int  setvbuf(FILE *fp, char *buf, int mode, size_t size) { (void)fp; (void)buf; (void)mode; (void)size; return 0; }
int  fseek(FILE *fp, long off, int whence) { (void)fp; (void)off; file_pos_end = (whence == SEEK_END); return 0; }
long ftell(FILE *fp) { (void)fp; return file_pos_end ? (long)N : 0; }
size_t fread(void *ptr, size_t size, size_t nmemb, FILE *fp)
{
  static const char pre[] = PREFIX;
  unsigned char    *p = ptr;
  size_t            i;
  (void)fp;
  VP_ASSERT(size == 1 && nmemb == N, "the whole file is read into a buffer of the announced size");
  for (i = 0; i < PL; i++)
    p[i] = (unsigned char)pre[i];
  for (i = 0; i < FL; i++) {
    p[PL + i] = vp_u8();
#ifdef NONL
    VP_ASSUME(p[PL + i] != '\n'); /* long-buffer probes: a single line */
#endif
  }
  return N;
}
int fclose(FILE *fp) { (void)fp; file_open--; return 0; }

void harness(void)
{
  static ares_channel_t ch;
  char                 *alias = (char *)&ch; /* must be overwritten */
  ares_status_t         st;
  size_t                i;

  vp_alloc_install();
  have_env  = vp_bool();
  have_file = vp_bool();
  if (vp_bool())
    ch.flags |= ARES_FLAG_NOALIASES;

  st = ares_lookup_hostaliases(&ch, NAME, &alias);

  VP_ASSERT(st == ARES_SUCCESS || st == ARES_ENOTFOUND || st == ARES_EFILE, "alias lookup gives success, not-found or a file error");
  VP_ASSERT(file_open == 0, "the aliases file is closed again");
  if (st == ARES_SUCCESS) {
    VP_ASSERT(alias != NULL && have_env && have_file && !(ch.flags & ARES_FLAG_NOALIASES), "an alias needs $HOSTALIASES, a readable file and no ARES_FLAG_NOALIASES");
    for (i = 0; i < CHK && alias[i] != 0; i++)
      VP_ASSERT(ares_is_hostnamech(alias[i]), "alias consists of host-name characters");
    i = strlen(alias);
    VP_ASSERT(i >= 1 && i <= 255, "alias is a non-empty NUL-terminated name of at most 255 characters (fqdn[256])");
    VP_WITNESS("alias found");
    ares_free(alias);
  } else {
    VP_ASSERT(alias == NULL, "no alias pointer without success");
    if (st == ARES_EFILE) VP_WITNESS("file error");
    if (have_env && have_file) VP_WITNESS("file read, no match");
  }
  VP_ASSERT(vp_alloc_live == 0, "alias lookup leaks nothing");
  VP_WITNESS("end");
}
