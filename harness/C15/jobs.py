OUTSIDE = "(draft)"
ASSUMPTIONS = []

LIB = ["src/lib/ares_library_init.c", "src/lib/util/ares_math.c", "src/lib/str/ares_buf.c", "src/lib/str/ares_str.c"]
SUP = ["vp_rt.c", "valloc.c", "memloops.c", "libc_extra.c", "array_ref.c"]

# option dictionary of process_option(): key -> field selector used by options.c
OPTKEYS = [("ndots", 1), ("retrans", 2), ("timeout", 2), ("retry", 3), ("attempts", 3), ("rotate", 4), ("use-vc", 5),
           ("usevc", 5), ("bogus", 0), ("timeou", 0)]


def q(s):
    return '"%s"' % s


def us(d):
    return ["%s:%d" % (k, v) for k, v in sorted(d.items())]


def options_jobs(tier):
    J = []
    # the two-token metamorphic jobs need 4 symbolic process_option() instances: measured > 240 s, thorough tier only
    pair_keys = () if tier == "quick" else ("timeout", "ndots", "rotate")
    tv, jk = (1, 2)
    for key, field in OPTKEYS + [(None, 0)]:
        kd = ["-DKEYSYM", "-DFIELD=0"] if key is None else ["-DKEY=" + q(key), "-DFIELD=%d" % field]
        kn = "SYM3" if key is None else key
        kl = 3 if key is None else len(key)
        for mode, mname in ((0, "single"), (1, "junkafter"), (2, "junkbefore")):
            if mode and key not in pair_keys:
                continue
            forms = (("", []), ("_nocolon", ["-DNOCOLON"])) if mode == 0 else (("", []),)
            for fname, fd in forms:
                if key is None and fd:
                    continue
                L = kl + 4 if mode == 0 else kl + 1 + tv + 1 + jk
                tok = 1 if mode == 0 else 2
                # ':'-split iterations of one token: key section, rest; a key/junk made only of trimmable white
                # space or colons adds one iteration per further colon
                inner = 2 + (4 if key is None else 0) if mode == 0 else max(2 + (1 + tv if key is None else 0), jk + 1)
                u = {"ares_buf_split.2": max(inner, tok) + 1, "ares_buf_split.0": 5, "ares_buf_split.1": 5,
                     "ares_sysconfig_set_options.0": tok + 1, "ares_buf_split_str_array.0": 3, "ares_free_array.1": 3,
                     "ares_array_destroy.0": 3, "strtoul.0": 5, "strtoul.1": 5, "memcpy.0": max(kl, 8) + 1,
                     "ares_buf_fetch_str_dup.0": max(kl, 8) + 1, "ares_array_insertdata_last.0": 9,
                     "ares_array_insert_last.1": 9}
                what = {0: "text = '%s%s'" % (kn, "" if fd else ":' + 0..3 arbitrary bytes (no blank/tab)"),
                        1: "text = '%s:'+%d arbitrary bytes, blank, junk token (%d arbitrary bytes) vs the first token alone" % (kn, tv, jk),
                        2: "text = junk token (%d arbitrary bytes), blank, '%s:'+%d arbitrary bytes vs the second token alone" % (jk, kn, tv)}[mode]
                J.append(dict(name="c15_options_%s_%s%s" % (mname, kn, fname), harness="options.c",
                              defines=["-DMODE=%d" % mode, "-DTV=%d" % tv, "-DJK=%d" % jk] + kd + fd, kf_group="c15_options",
                              real=LIB + ["src/lib/ares_sysconfig_files.c"], support=SUP, unwind=L + 2, unwindset=us(u),
                              leak=True, witnesses=["end"],
                              bound="ares_sysconfig_set_options on arbitrary pre-state sysconfig; " + what))
    return J


def jobs(tier, seed):
    J = []
    J += options_jobs(tier)
    return J
