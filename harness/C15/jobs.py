OUTSIDE = ("ares_uri.c itself (the URI *parser*; parse_nameserver_uri is checked against an abstract URI object in c15_nsuri_*); the hosts-file "
           "reader on ARBITRARY bytes (c15_hosts_* are concrete files: the shapes with arbitrary bytes did not close) and its hostent/addrinfo "
           "conversion, file caching (ares_hosts_update/expired); ares_init_sysconfig_files' fixed path list; real file I/O / getenv (LOCALDOMAIN and "
           "RES_OPTIONS reach config_search / ares_sysconfig_set_options, which are covered, but ares_init_by_environment itself is not run); "
           "texts longer than the stated byte counts; more than two options / servers / sortlist entries per text; allocation failure "
           "inside these parsers (C14); the fqdn[256] buffer of ares_lookup_hostaliases (probe did not close); IPv6 conversion inside the "
           "deeper nameserver/sortlist/resolv.conf jobs (contract stub there, real converter only in c15_pton_*, c15_nameserver_*_L4/L6)")
ASSUMPTIONS = ["array_ref.c: fixed-capacity reference implementation of the ares_array contract replaces dsa/ares_array.c in every C15 job "
               "(the real growth path makes every token allocation size symbolic: measured no verdict / out of memory); the real ares_array is "
               "checked against the same contract in C19",
               "pton_stub.c: in the *stubpton*, c15_sortlist_* (except realpton) and c15_resolvline_* jobs ares_inet_pton is a contract stub "
               "(NUL-terminated input checked, result an uninterpreted function of family and text, only [0-9a-fA-FxX.:/] texts accepted); the "
               "real converter is checked on arbitrary texts of 3..7 (quick) / 9 (thorough) bytes in c15_pton_*",
               "libc_extra.c: strtoul and memchr are harness implementations (CBMC 6.11 ships no model); atoi/strtol/strlen/strcmp/strchr/"
               "strcasecmp are CBMC's library models",
               "ares_uri_parse_buf returns ARES_EBADSTR (URI nameserver form outside)",
               "interface lookups (aif_nametoindex / aif_indextoname) return arbitrary values; index 0 is never a valid interface",
               "c15_hostaliases: getenv and the C stream functions are in-memory stubs (no native replay for these jobs)",
               "jobs using goto-instrument --restrict-function-pointer (server list destructor = ares_free, as set by ares_sconfig_append) are "
               "not natively replayable",
               "value bytes of an options token exclude blank/tab in the single-token jobs (a blank makes two tokens: junkafter/junkbefore jobs)",
               "c15_nsuri_*: the URI parser is abstract (stubs of ares_uri_parse_buf/get_scheme/get_host/get_port/get_query_key/destroy: scheme dns|https, "
               "host = the job's concrete text, port arbitrary, tcpport absent or 0..6 arbitrary non-NUL bytes; the object must be destroyed exactly "
               "once); the c15_nsuri_fromstr_* jobs always take the URI branch and have no tcpport key; expected address bytes come from Python's "
               "ipaddress module",
               "c15_nsswitch_*/c15_svcconf_*: the line is KW+VPREFIX (concrete) + 2..4 arbitrary bytes without line feed; the oracle is the harness's own "
               "tokenizer (sysconfline.c r_read) with the word list dns|bind|resolv|resolve / files|file|local",
               "c15_procbuf_*/c15_cfgfile_*: concrete texts; expected lines / lookups computed by Python (jobs.py _ref_lookups); c15_cfgfile_* and "
               "c15_hosts_*: fopen/setvbuf/fseek/ftell/fread/fclose are in-memory stubs, file presence concrete per job, no native replay",
               "c15_hosts_*: ares_htable_strvp = harness/stubs/strvp_ref.c (case-insensitive association list in insertion order, typed allocations); "
               "snprintf = harness model snprintf_model.c (%u %x %d %s %% only); time() arbitrary; llist destructor restricted to ares_free; "
               "concrete files only"]

LIB = ["src/lib/ares_library_init.c", "src/lib/util/ares_math.c", "src/lib/str/ares_buf.c", "src/lib/str/ares_str.c"]
SUP = ["vp_rt.c", "valloc.c", "memloops.c", "libc_extra.c", "array_ref.c"]

# option dictionary of process_option(): key -> field selector used by options.c
OPTKEYS = [("ndots", 1), ("retrans", 2), ("timeout", 2), ("retry", 3), ("attempts", 3), ("rotate", 4), ("use-vc", 5),
           ("usevc", 5), ("bogus", 0), ("timeou", 0)]


def q(s):
    return '"%s"' % s


def us(d):
    return ["%s:%d" % (k, v) for k, v in sorted(d.items())]


def options_jobs(tier):
    J = []
    # the two-token metamorphic jobs need 4 symbolic process_option() instances: measured > 240 s, thorough tier only
    pair_keys = () if tier == "quick" else ("timeout", "ndots", "rotate")
    tv, jk = (1, 2)
    for key, field in OPTKEYS + ([] if tier == "quick" else [(None, 0)]):   # arbitrary 3-byte key: 112-150 s, thorough only
        kd = ["-DKEYSYM", "-DFIELD=0"] if key is None else ["-DKEY=" + q(key), "-DFIELD=%d" % field]
        kn = "SYM3" if key is None else key
        kl = 3 if key is None else len(key)
        for mode, mname in ((0, "single"), (1, "junkafter"), (2, "junkbefore")):
            if mode and key not in pair_keys:
                continue
            forms = (("", []), ("_nocolon", ["-DNOCOLON"])) if mode == 0 else (("", []),)
            for fname, fd in forms:
                if key is None and fd:
                    continue
                L = kl + 4 if mode == 0 else kl + 1 + tv + 1 + jk
                tok = 1 if mode == 0 else 2
                # ':'-split iterations of one token: key section, rest; a key/junk made only of trimmable white
                # space or colons adds one iteration per further colon
                inner = 2 + (4 if key is None else 0) if mode == 0 else max(2 + (1 + tv if key is None else 0), jk + 1)
                u = {"ares_buf_split.2": max(inner, tok) + 1, "ares_buf_split.0": 5, "ares_buf_split.1": 5,
                     "ares_sysconfig_set_options.0": tok + 1, "ares_buf_split_str_array.0": 3, "ares_free_array.1": 3,
                     "ares_array_destroy.0": 3, "strtoul.0": 5, "strtoul.1": 5, "memcpy.0": max(kl, 8) + 1,
                     "ares_buf_fetch_str_dup.0": max(kl, 8) + 1, "ares_array_insertdata_last.0": 9,
                     "ares_array_insert_last.1": 9}
                what = {0: "text = '%s%s'" % (kn, "" if fd else ":' + 0..3 arbitrary bytes (no blank/tab)"),
                        1: "text = '%s:'+%d arbitrary bytes, blank, junk token (%d arbitrary bytes) vs the first token alone" % (kn, tv, jk),
                        2: "text = junk token (%d arbitrary bytes), blank, '%s:'+%d arbitrary bytes vs the second token alone" % (jk, kn, tv)}[mode]
                J.append(dict(name="c15_options_%s_%s%s" % (mname, kn, fname), harness="options.c",
                              defines=["-DMODE=%d" % mode, "-DTV=%d" % tv, "-DJK=%d" % jk] + kd + fd, kf_group="c15_options",
                              real=LIB + ["src/lib/ares_sysconfig_files.c"], support=SUP, unwind=L + 2, unwindset=us(u),
                              leak=True, witnesses=["end"],
                              bound="ares_sysconfig_set_options on arbitrary pre-state sysconfig; " + what))
    return J


NS_LIB = ["src/lib/ares_library_init.c", "src/lib/str/ares_buf.c", "src/lib/str/ares_str.c", "src/lib/inet_net_pton.c",
          "src/lib/ares_hosts_file.c", "src/lib/dsa/ares_llist.c"]


def pton_unwind(n):
    """loop bounds of inet_net_pton.c / ares_buf scanning for a text of at most n bytes"""
    return {"ares_inet_net_pton_ipv4.0": n + 1, "ares_inet_net_pton_ipv4.1": n + 1, "ares_inet_net_pton_ipv4.2": n // 2 + 2,
            "ares_inet_net_pton_ipv4.3": n + 1, "ares_inet_net_pton_ipv4.4": 5, "ares_inet_pton6.0": n + 2,
            "ares_inet_pton6.1": 17, "getbits.0": n + 1, "strlen.0": n + 2, "ares_buf_tag_fetch_string.0": n + 2,
            "strtol.0": 8, "memchr.0": n + 2, "ares_buf_consume_charset.0": 71, "ares_buf_consume_charset.1": n + 2,
            "ares_buf_consume_whitespace.0": n + 2, "ares_buf_consume_until_charset.0": n + 2,
            "ares_buf_consume_until_charset.1": n + 2, "memcpy.0": max(n + 2, 18), "ares_subnet_match.0": 18}


def nameserver_jobs(tier):
    J = []
    full = "0123456789abcdef.:%[] x"
    shapes = []
    # measured (sat): parse L4 22 s, L6 63 s, L8 144 s; fromstr costs about the same per entry
    for l in ((4, 6) if tier == "quick" else (4, 6, 8)):
        shapes.append(("L%d" % l, "", full, l, 0, None))
    for l in ((4,) if tier == "quick" else (4, 6)):
        shapes.append(("L%d" % l, "", full.replace(" ", ""), l, 1, None))
    # deeper bounds with the converter replaced by its contract stub (pton_stub.c; real one: c15_pton_*)
    for l in ((8, 10) if tier == "quick" else (8, 10, 12)):
        shapes.append(("stubpton_L%d" % l, "", full, l, 0, None))
    shapes.append(("stubpton_L8", "", full.replace(" ", ""), 8, 1, None))
    shapes.append(("stubpton_two_L9", "", full.replace(" ", ""), 9, 1, 4))
    if tier != "quick":  # two entries: measured 152 s at L5
        shapes.append(("two_L5", "", full.replace(" ", ""), 5, 1, 2))
    # shape-concrete probes of the fixed-size locals: portstr[6], ll_iface[IF_NAMESIZE=16], ipaddr[46]
    shapes.append(("port_v4", "1.2.3.4:", "0123456789 %x", 7, 0, None))
    shapes.append(("port_v6", "[::1]:", "0123456789 %x", 7, 0, None))
    shapes.append(("iface", "[fe80::1]%", "eth0_-.:{}\\\\ ]", 17, 0, None))
    shapes.append(("iface0", "", "eth019", 0, 2, None))
    shapes.append(("iface3", "", "eth019", 3, 2, None))
    shapes.append(("ipaddr_long", "[1:2:3:4:5:6:7:8:9:a:b:c:d:e:f:1:2:3:4:5:6:", "0123456789abcdef:.]", 5, 0, None))
    for nm, prefix, cs, l, mode, split in shapes:
        n = len(prefix.replace("\\\\", "\\")) + l
        u = pton_unwind(n)
        u.update({"addr_end.0": n + 2, "addr_end.1": n + 2, "addr_end.2": n + 2, "addr_end.3": n + 2, "addr_end.4": n + 2,
                  "in_set.0": 27, "harness.0": n + 2, "harness.1": n + 2, "harness.2": n + 2, "harness.3": n + 2,
                  "harness.4": 18, "ares_buf_split.2": 2 if split is None else 3, "ares_buf_split.0": 2, "ares_buf_split.1": 2,
                  "ares_sconfig_append_fromstr.0": 2 if split is None else 3, "ares_array_destroy.0": 2 if split is None else 3,
                  "ares_array_insertdata_last.0": 9, "ares_array_insert_last.1": 9, "ares_llist_clear.0": 3,
                  "ares_sconfig_linklocal.0": 18, "ares_sconfig_linklocal.1": 18})
        u["memcpy.0"] = max(n + 2, 22)
        d = ["-DMODE=%d" % mode, "-DL=%d" % l, "-DPREFIX=" + q(prefix), "-DCHARSET=" + q(cs)]
        real = NS_LIB
        if split is not None:
            d.append("-DSPLIT_AT=%d" % split)
        sup = SUP
        if nm == "ipaddr_long":
            d.append("-DPTON_STUB")
            real = [r for r in NS_LIB if "pton" not in r and "hosts_file" not in r]
        if nm.startswith("stubpton"):
            real = [r for r in NS_LIB if "inet_net_pton" not in r]
            sup = SUP + ["pton_stub.c"]
            u.update({"pton_common.0": 18, "pton_common.1": 17, "pton_common.2": 17})
        u["ares_dns_pton.0"] = 48
        extra = {}
        if mode >= 1:
            # the server list's destructor is ares_free (ares_llist_create(ares_free) in ares_sconfig_append); without the
            # restriction CBMC case-splits over every void(*)(void*) of the linked TUs (ares_hosts_file.c brings list
            # destructors that recurse into ares_llist_destroy)
            extra["instrument"] = [["--restrict-function-pointer", "ares_llist_node_destroy.function_pointer_call.1/ares_free"]]
        J.append(dict(name="c15_nameserver_%s_%s" % (("parse", "fromstr", "append")[mode], nm), harness="nameserver.c",
                      defines=d, real=real, support=sup, unwind=18, unwindset=us(u), leak=True, kf_group="c15_nameserver", **extra,
                      bound="%s on text = '%s' + %d arbitrary bytes of [%s]%s" %
                            (("parse_nameserver (exact-size buffer)", "ares_sconfig_append_fromstr (ignore_invalid arbitrary)",
                              "ares_sconfig_append (arbitrary v4/v6 address and ports) with interface")[mode],
                             prefix, l, cs, "" if split is None else ", separator planted at byte %d" % split)))
    return J


def sortlist_jobs(tier):
    J = []
    shapes = []
    # (name, prefix, charset, L, split, real converter?)   measured: real converter L4 = 167 s / 4.3 GB
    for l in ((4, 6) if tier == "quick" else (4, 6, 8)):
        shapes.append(("L%d" % l, "", None, l, None, False))
    if tier != "quick":
        shapes.append(("realpton_L4", "", None, 4, None, True))
    shapes.append(("two_L5", "", None, 5, 2, False))
    if tier != "quick":
        shapes.append(("two_L7", "", None, 7, 3, False))
    # shape-concrete probes: maskstr[16] and the atoi() of a long digit string
    shapes.append(("mask_short", "1.2.3.4/", "0123456789.", 3, None, False))
    shapes.append(("mask_num", "1.2.3.4/", "0123456789", 11, None, False))
    shapes.append(("mask_long", "::1/", "0123456789.", 16, None, False))
    for nm, prefix, cs, l, split, realpton in shapes:
        n = len(prefix) + l
        tok = 1 if split is None else 2
        u = pton_unwind(n)
        u.update({"harness.0": n + 2, "harness.1": n + 2, "harness.2": tok + 1, "harness.3": n + 2, "harness.4": n + 2,
                  "ares_buf_split.2": tok + 1, "ares_buf_split.0": 2, "ares_buf_split.1": 2, "ares_parse_sortlist.0": tok + 1,
                  "ares_array_destroy.0": tok + 1, "ares_array_insertdata_last.0": 9, "ares_array_insert_last.1": 9,
                  "vp_realloc.0": 26, "memcpy.0": max(n + 2, 26), "ares_str_isnum.0": n + 2, "strtol.0": n + 2,
                  "raw_alloc.0": 6, "pton_common.0": 18, "pton_common.1": 17, "pton_common.2": 17})
        sizes = "-DVP_SIZES=24,48,%d,32,64" % (n + 1)   # apattern x1/x2, text, array_ref struct/ares_buf, array storage
        d = ["-DL=%d" % l, "-DPREFIX=" + q(prefix), sizes] + (["-DCHARSET=" + q(cs)] if cs else [])
        if split is not None:
            d.append("-DSPLIT_AT=%d" % split)
        real = NS_LIB[:-1] + ["src/lib/util/ares_math.c", "src/lib/ares_sysconfig_files.c"]
        sup = SUP
        if not realpton:
            real = [r for r in real if "inet_net_pton" not in r]
            sup = SUP + ["pton_stub.c"]
        J.append(dict(name="c15_sortlist_%s" % nm, harness="sortlist.c", defines=d, real=real, support=sup,
                      unwind=18, unwindset=us(u), leak=True, kf_group="c15_sortlist",
                      bound="ares_parse_sortlist on text = '%s' + %d arbitrary bytes of [%s]%s; previous list present or not; %s" %
                            (prefix, l, cs or "0-9./:a-f tab", "" if split is None else ", separator (blank or ';') planted at byte %d" % split,
                             "real inet_net_pton.c" if realpton else "address converter = contract stub pton_stub.c (real one: c15_pton_*)")))
    return J


def pton_jobs(tier):
    J = []
    for af, afn in (("AF_INET", "v4"), ("AF_INET6", "v6")):
        for l in ((3, 5, 7) if tier == "quick" else (3, 5, 7, 8, 9)):
            u = pton_unwind(l)
            u.update({"harness.0": l + 2})
            J.append(dict(name="c15_pton_%s_L%d" % (afn, l), harness="pton.c", defines=["-DL=%d" % l, "-DAF=" + af],
                          real=["src/lib/ares_library_init.c", "src/lib/inet_net_pton.c", "src/lib/str/ares_str.c"],
                          support=["vp_rt.c", "valloc.c", "memloops.c", "libc_extra.c"], unwind=18, unwindset=us(u), leak=True,
                          bound="real ares_inet_pton(%s) on %d arbitrary bytes of [0-9a-fxX.:/] + NUL, exact-size buffers" % (af, l)))
    return J


def nsuri_jobs(tier):
    """parse_nameserver_uri() with an abstract URI object (nameserver_uri.c); host text concrete per job, expected address
    bytes from Python's ipaddress module (independent of c-ares)"""
    import ipaddress
    J = []
    hosts = [("v4", "1.2.3.4"), ("v4hi", "255.254.253.252"), ("v6", "::1"), ("v6full", "2001:db8::a:b"),
             ("ll_scope", "fe80::1%eth0"), ("ll_longscope", "fe80::1%abcdefghijklmnopqrst"), ("ll_noscope", "fe80::1"),
             ("name", "ns.example"), ("badaddr", "1.2.3.4.5")]
    rfp = {"instrument": [["--restrict-function-pointer", "ares_llist_node_destroy.function_pointer_call.1/ares_free"]]}
    for nm, host in hosts:
        addr, _, scope = host.partition("%")
        try:
            ip = ipaddress.ip_address(addr)
            fam, xaddr = ip.version, ",".join(str(b) for b in ip.packed)
        except ValueError:
            fam, xaddr = 0, "0"
        n = len(host)
        u = pton_unwind(n)
        u.update({"strchr.0": max(n + 2, 24), "strcmp.0": 9, "ares_strcpy.0": n + 2, "memcpy.0": max(n + 2, 22), "harness.0": 8, "harness.1": 8,
                  "harness.2": 18, "harness.3": 18, "strtol.0": 9, "atoi.0": 9, "memcmp.0": 18, "ares_streq.0": 5, "vp_bytes.0": 50, "strlen.0": max(n + 2, 18),
                  "ares_buf_split.2": 2, "ares_buf_split.0": 2, "ares_buf_split.1": 2, "ares_sconfig_append_fromstr.0": 2,
                  "ares_array_destroy.0": 2, "ares_array_insertdata_last.0": 9, "ares_array_insert_last.1": 9,
                  "ares_llist_clear.0": 3, "ares_sconfig_linklocal.0": 18, "ares_sconfig_linklocal.1": 18, "ares_dns_pton.0": 48})
        d = ["-DHOST=" + q(host), "-DXFAM=%d" % fam, "-DXADDR=" + xaddr, "-DXSCOPE=" + q(scope[:15])]
        what = ("abstract URI object (stubs of ares_uri_parse_buf/get_scheme/get_host/get_port/get_query_key/destroy): parser says 'not a "
                "URI' or yields scheme dns|https (arbitrary), host = '%s' (concrete; real ares_dns_pton/inet_net_pton on it), port = arbitrary "
                "unsigned short" % host)
        for mode in (0, 1):
            if mode == 1 and nm not in ("v4", "ll_scope", "ll_noscope", "name"):
                continue
            dd = d + ["-DMODE=%d" % mode] + (["-DLLNOSCOPE"] if (mode == 1 and nm == "ll_noscope") else [])
            wit = ["end"]
            if mode == 0:
                wit += ["not a URI", "other scheme rejected"] + (["dns URI rejected"] if fam == 0 else []) + \
                       ([] if fam == 0 else ["ipv%d accepted" % fam, "tcp port differs from udp port"]) + (["scope given"] if scope else [])
            else:
                wit += ["nothing stored"] + (["server stored"] if fam and nm != "ll_noscope" else []) + (["link-local stored"] if nm == "ll_scope" else [])
            J.append(dict(name="c15_nsuri_%s_%s" % (("parse", "fromstr")[mode], nm), harness="nameserver_uri.c", defines=dd, real=NS_LIB,
                          support=SUP, unwind=18, unwindset=us(u), leak=True, kf_group="c15_nsuri", witnesses=wit, timeout=120,
                          **(rfp if mode == 1 else {}),
                          bound=(("one real parse_nameserver_uri into an ares_sconfig_t with ARBITRARY previous content; tcpport query value "
                                  "absent or 0..6 ARBITRARY non-NUL bytes; " if mode == 0 else
                                  "real ares_sconfig_append_fromstr('dns://x', ignore_invalid arbitrary), no tcpport key, interface lookups "
                                  "present or not with arbitrary results, ares_array = array_ref.c; ") + what)))
    return J


SC_LIB = ["src/lib/ares_library_init.c", "src/lib/str/ares_buf.c", "src/lib/str/ares_str.c", "src/lib/util/ares_math.c"]
_WS = " \t\r\n\v\f"


def _ref_lookups(text, form):
    """Python reference of the documented nsswitch.conf / svc.conf 'hosts' reading (used for the concrete-text jobs only)"""
    cur = ""
    keysep, seps = ((":", " \t"), ("=", ","))[form]
    for line in text.split("\n"):
        line = line.strip(_WS)
        if not line or line.startswith("#") or keysep not in line:
            continue
        key, val = line.split(keysep, 1)
        if key.strip(_WS) != "hosts":
            continue
        toks, t = [], ""
        for c in val:
            if c in seps:
                toks.append(t); t = ""
            else:
                t += c
        toks.append(t)
        toks = [t.strip(_WS) for t in toks if t.strip(_WS)]
        if any(not (0x20 <= ord(c) <= 0x7e) for t in toks for c in t):
            continue
        out = ""
        for t in toks:
            c = {"dns": "b", "bind": "b", "resolv": "b", "resolve": "b", "files": "f", "file": "f", "local": "f"}.get(t.lower())
            if c and c not in out:
                out += c
        if out:
            cur = out
    return cur


def cq(s):
    """C string literal for a -D define"""
    # named escapes only: goto-cc reads an octal escape followed by a digit ("\\0122") differently from gcc
    named = {"\n": "\\n", "\t": "\\t", "\r": "\\r", "\v": "\\v", "\f": "\\f", '"': '\\"', "\\": "\\\\"}
    assert all(c in named or 0x20 <= ord(c) <= 0x7e for c in s)
    return '"' + "".join(named.get(c, c) for c in s) + '"'


def sysconf_jobs(tier):
    J = []
    # ---- MODE 0: one line = KW + VPREFIX + V arbitrary bytes
    shapes = [  # (name, form, kw, vprefix, V, pres)
        ("nsswitch_v4", 0, "hosts:", "", 4, (0, 1)),
        ("nsswitch_files_v3", 0, "hosts:", "files ", 3, (0, 1)),
        ("nsswitch_dns_v3", 0, "hosts:", "dns ", 3, (0,)),   # "dns dns": the duplicate filter
        ("nsswitch_resol_v3", 0, "hosts:", "resol", 3, (0,)),
        ("nsswitch_fil_v3", 0, "hosts: ", "fil", 3, (1,)),
        ("nsswitch_action_v2", 0, "hosts:", "dns [!U=r] ", 2, (1,)),
        ("nsswitch_keyblank", 0, " hosts :", "dn", 2, (1,)),
        ("nsswitch_key_host", 0, "host:", "dn", 2, (1,)),
        ("nsswitch_key_Hosts", 0, "Hosts:", "dn", 2, (1,)),
        ("nsswitch_key_comment", 0, "#hosts:", "dn", 2, (1,)),
        ("nsswitch_key31", 0, "h" * 31 + ":", "dn", 2, (1,)),
        ("nsswitch_key32", 0, "h" * 32 + ":", "dn", 2, (1,)),
        ("nsswitch_key33", 0, "h" * 33 + ":", "dn", 2, (1,)),
        ("svcconf_v4", 1, "hosts=", "", 4, (0, 1)),
        ("svcconf_local_bin_v2", 1, "hosts = ", "local , bin", 2, (0, 1)),
        ("svcconf_bin_v3", 1, "hosts=", "bin", 3, (1,)),
        ("svcconf_key_comment", 1, "#hosts=", "bin", 2, (1,)),
        ("svcconf_key_host", 1, "host=", "bin", 2, (1,)),
    ]
    for nm, form, kw, vp, v, pres in shapes:
        sep = ":="[form]
        key = kw.split(sep, 1)[0]
        keyok = int(key.strip(_WS) == "hosts" and not kw.startswith("#"))
        n = len(kw) + len(vp) + v
        vl = n - len(kw.split(sep, 1)[0]) - 1
        # sections the value can be split into; a comma is not trimmed away, so every arbitrary byte can end a section
        tok = (vl // 2 + 2) if form == 0 else vp.count(",") + v + 1
        u = {"ares_buf_tag_fetch_string.0": n + 1, "memchr.0": n + 2, "ares_buf_consume_until_charset.0": n + 2,
             "ares_buf_consume_until_charset.1": n + 2, "ares_buf_split.2": tok + 1, "ares_buf_split.0": n + 1, "ares_buf_split.1": n + 1,
             "ares_buf_split_str_array.0": tok + 1, "ares_free_array.0": tok + 1, "ares_free_array.1": tok + 1,
             "ares_array_destroy.0": tok + 1, "config_lookup.0": tok + 1, "ares_array_insertdata_last.0": 9,
             "ares_array_insert_last.1": 9, "ares_buf_fetch_str_dup.0": vl + 1, "memcpy.0": n + 2, "ares_memeq_ci.0": 9,
             "strcasecmp.0": 9, "ares_strcaseeq.0": 9, "strlen.0": max(vl + 2, 9), "strcmp.0": 9, "ares_streq.0": 9, "str_eq.0": 18,
             "harness.0": n + 1, "harness.1": v + 1, "harness.2": len(kw) + 2, "r_read.0": vl + 2, "r_read.1": vl + 2,
             "r_read.2": vl + 2, "r_read.3": vl + 2, "r_read.4": vl + 2, "r_word.0": 9, "ares_str_isprint.0": n + 1}
        for pre in pres:
            J.append(dict(name="c15_%s_pre%d" % (nm, pre), harness="sysconfline.c",
                          defines=["-DMODE=0", "-DFORM=%d" % form, "-DKW=" + cq(kw), "-DVPREFIX=" + cq(vp), "-DV=%d" % v, "-DPRE=%d" % pre,
                                   "-DKEYOK=%d" % keyok],
                          real=SC_LIB, support=SUP, unwind=max(n + 2, 12), unwindset=us(u), leak=True, kf_group="c15_sysconfline",
                          cbmc=["--max-field-sensitivity-array-size", "64"], timeout=240,
                          witnesses=["end", "line without effect"] + (["line took effect"] if keyok else []),
                          bound="one real %s on '%s' + %d ARBITRARY bytes (no line feed) from %s sysconfig; result compared with the "
                                "harness's independent tokenizer" % (("parse_nsswitch_line", "parse_svcconf_line")[form], kw + vp, v,
                                ("a freshly initialised", "a populated (1 domain, lookups 'bf' or 'f', 1 sortlist entry, opaque server list, arbitrary scalars)")[pre])))
    # ---- MODE 2: line driver on concrete texts
    texts = [("lf", "hosts: files dns\n# c\n"), ("crlf", "a b\r\n\r\n  c d\t\r\n"), ("nonl", "x\ny"), ("blank", "\n\n one \n\n\ntwo\n\n"),
             ("ws_only", " \t\n\r\n"), ("four", "1\n2\n3\n4\n")]
    for nm, text in texts:
        exp = [l.strip(_WS) for l in text.split("\n") if l.strip(_WS)]
        n = len(text)
        u = {"ares_buf_split.2": len(text.split("\n")) + 1, "ares_buf_split.0": n + 1, "ares_buf_split.1": n + 1,
             "ares_buf_consume_until_charset.0": n + 2, "ares_buf_consume_until_charset.1": n + 2, "memchr.0": n + 2,
             "ares_sysconfig_process_buf.0": len(exp) + 1, "ares_array_destroy.0": len(exp) + 1, "ares_array_insertdata_last.0": 9,
             "ares_array_insert_last.1": 9, "record_cb.0": n + 1, "strlen.0": n + 2}
        J.append(dict(name="c15_procbuf_%s" % nm, harness="sysconfline.c",
                      defines=["-DMODE=2", "-DTEXT=" + cq(text), "-DNEXP=%d" % len(exp)] + ["-DEXP%d=%s" % (i, cq(e)) for i, e in enumerate(exp)],
                      real=SC_LIB, support=SUP, unwind=n + 2, unwindset=us(u), leak=True, kf_group="c15_sysconfline", timeout=120,
                      witnesses=["end", "all lines delivered"] + (["stopped at failing line"] if exp else []),
                      bound="real ares_sysconfig_process_buf on the concrete text %s with a recording callback (fails at an arbitrary line or "
                            "never); expected lines computed by Python" % repr(text)))
    # ---- MODE 3: file driver (stdio stubs) + real line reader on concrete files
    files = [("nsswitch_typical", 0, "# /etc/nsswitch.conf\npasswd: files\nhosts: files dns\n"),
             ("nsswitch_comment_last", 0, "hosts: dns\n#hosts: files\n"),
             ("nsswitch_junk_last", 0, "hosts:\tfiles\thosts: dns\nhosts dns\n:dns\nhosts: [NOTFOUND=return] mdns\n"),
             ("nsswitch_override", 0, "hosts: dns\r\nhosts: files resolve files\r\n"),
             ("svcconf_typical", 1, "# netsvc.conf\nhosts = local , bind\n"),
             ("svcconf_junk", 1, "hosts=bind\nhosts=nis,yp\nhosts\n=local\n")]
    files += [("nofile", 0, "hosts: dns\n")]
    for nm, form, text in files:
        n = len(text)
        hf = int(nm != "nofile")
        nl = len(text.split("\n"))
        u = {"ares_buf_split.2": max(nl, 6) + 1, "ares_buf_split.0": n + 1, "ares_buf_split.1": n + 1, "fread.0": n + 1,
             "ares_buf_consume_until_charset.0": n + 2, "ares_buf_consume_until_charset.1": n + 2, "memchr.0": n + 2,
             "ares_sysconfig_process_buf.0": nl + 1, "ares_array_destroy.0": max(nl, 6) + 1, "ares_array_insertdata_last.0": 9,
             "ares_array_insert_last.1": 9, "ares_buf_split_str_array.0": 7, "ares_free_array.0": 7, "ares_free_array.1": 7,
             "config_lookup.0": 7, "ares_buf_fetch_str_dup.0": n + 1, "memcpy.0": n + 2, "strlen.0": n + 2, "str_eq.0": 18,
             "ares_buf_ensure_space.0": 8, "ares_buf_tag_fetch_string.0": n + 1}
        J.append(dict(name="c15_cfgfile_%s" % nm, harness="sysconfline.c",
                      defines=["-DMODE=3", "-DHAVEFILE=%d" % hf, "-DFORM=%d" % form, "-DTEXT=" + cq(text), "-DEXPLOOKUPS=" + cq(_ref_lookups(text, form))],
                      real=SC_LIB, support=SUP, unwind=n + 2, unwindset=us(u), leak=True, kf_group="c15_sysconfline", native=False, timeout=120,
                      witnesses=["end", "file processed" if hf else "no file"],
                      bound="real process_config_lines + ares_buf_load_file + ares_sysconfig_process_buf + %s on %s (stdio = in-memory "
                            "stubs); expected lookups '%s' computed by Python" %
                            (("parse_nsswitch_line", "parse_svcconf_line")[form],
                             ("the concrete file %s" % repr(text)) if hf else "a missing (ENOENT) or unreadable (EACCES) file", _ref_lookups(text, form))))
    return J


HF_LIB = ["src/lib/ares_library_init.c", "src/lib/str/ares_buf.c", "src/lib/str/ares_str.c", "src/lib/inet_net_pton.c",
          "src/lib/inet_ntop.c", "src/lib/dsa/ares_llist.c"]
HF_SUP = ["vp_rt.c", "valloc.c", "memloops.c", "libc_extra.c", "strvp_ref.c", "snprintf_model.c"]


def hosts_jobs(tier):
    """ares_parse_hosts() on an in-memory hosts file (hostsline.c); '@' in the text = one arbitrary byte"""
    J = []
    V = 'name_has_ip(hf,"foo","1.2.3.4"); name_has_ip(hf,"bar","1.2.3.4"); name_ipcount(hf,"foo",1); addr_canon(hf,"1.2.3.4","foo"); ' \
        'addr_has_host(hf,"1.2.3.4","bar"); addr_hostcount(hf,"1.2.3.4",2); same_entry(hf,"bar","1.2.3.4"); '
    shapes = [
        # (name, text, names0, checks, extra witnesses, anybyte)
        ("valid", "1.2.3.4 foo bar\n", 2, V + "count_names(hf,2); count_addrs(hf,1);", [], False),
        ("nonl", "1.2.3.4\tfoo  bar", 2, V + "count_names(hf,2); count_addrs(hf,1);", [], False),
        ("comments", "# c 9.9.9.9 zed\n\n1.2.3.4 foo bar # baz\n   \n#x\n", 2,
         V + 'absent_name(hf,"baz"); absent_name(hf,"zed"); absent_name(hf,"#"); absent_addr(hf,"9.9.9.9"); count_names(hf,2); count_addrs(hf,1);', [], False),
        ("case", "1.2.3.4 Foo BAR\n", 2, V + "count_names(hf,2);", [], False),
        ("v6norm", "0:0:0:0:0:0:0:1 foo\n", 1, 'name_has_ip(hf,"foo","::1"); addr_canon(hf,"::1","foo"); absent_addr(hf,"0:0:0:0:0:0:0:1"); count_addrs(hf,1);', [], False),
        ("badaddr", "1.2.3.999 zed\n1.2.3.4 foo bar\n1.2.3.4.5 q\n", 2, V + 'absent_name(hf,"zed"); absent_name(hf,"q"); count_names(hf,2); count_addrs(hf,1);', [], False),
        ("noname", "5.6.7.8\n5.6.7.9 # zed\n1.2.3.4 foo bar\n", 2, V + 'absent_addr(hf,"5.6.7.8"); absent_addr(hf,"5.6.7.9"); absent_name(hf,"zed"); count_names(hf,2); count_addrs(hf,1);', [], False),
        ("badname", "1.2.3.4 foo b!r bar\n", 2, V + 'absent_name(hf,"b!r"); count_names(hf,2);', [], False),
        # documented merging (file comment in ares_hosts_file.c)
        ("merge_name", "1.2.3.4 foo\n5.6.7.8 foo bar\n", 2,
         'name_has_ip(hf,"foo","1.2.3.4"); name_has_ip(hf,"foo","5.6.7.8"); name_ipcount(hf,"foo",2); same_entry(hf,"foo","1.2.3.4"); same_entry(hf,"foo","5.6.7.8"); '
         'same_entry(hf,"bar","1.2.3.4"); addr_canon(hf,"5.6.7.8","foo"); addr_hostcount(hf,"1.2.3.4",2); count_names(hf,2); count_addrs(hf,2);', ["two addresses stored"], False),
        ("merge_families", "127.0.0.1 lh.ld lh\n::1 lh.ld lh\n", 2,
         'name_has_ip(hf,"lh","127.0.0.1"); name_has_ip(hf,"lh","::1"); name_ipcount(hf,"lh.ld",2); addr_canon(hf,"::1","lh.ld"); addr_hostcount(hf,"::1",2); '
         'same_entry(hf,"lh","::1"); same_entry(hf,"lh.ld","127.0.0.1"); count_names(hf,2); count_addrs(hf,2);', ["two addresses stored"], False),
        ("merge_doc", "10.1.1.1 h.e h\n10.1.1.5 h.e h\n2620::1 h.e h6.e h6 h\n", 4,
         'name_ipcount(hf,"h.e",3); name_has_ip(hf,"h6",  "10.1.1.1"); name_has_ip(hf,"h","2620::1"); addr_canon(hf,"10.1.1.5","h.e"); addr_hostcount(hf,"2620::1",4); '
         'same_entry(hf,"h6.e","10.1.1.1"); count_names(hf,4); count_addrs(hf,3);', ["two addresses stored"], False),
        ("merge_addr", "1.2.3.4 foo\n1.2.3.4 bar\n", 2, V + "count_names(hf,2); count_addrs(hf,1);", [], False),
        ("first_wins", "1.2.3.4 foo\n5.6.7.8 bar\n9.9.9.9 bar foo\n", 2,   # third line joins the entry of its FIRST name that is known (bar); foo stays where it was
         'name_has_ip(hf,"foo","1.2.3.4"); name_ipcount(hf,"foo",1); name_has_ip(hf,"bar","5.6.7.8"); name_has_ip(hf,"bar","9.9.9.9"); addr_canon(hf,"1.2.3.4","foo"); '
         'addr_canon(hf,"9.9.9.9","bar"); count_names(hf,2); count_addrs(hf,3);',
         ["two addresses stored"], False),
        ("dupname", "1.2.3.4 foo foo bar\n", 2, 'name_has_ip(hf,"foo","1.2.3.4"); name_has_ip(hf,"bar","1.2.3.4"); addr_canon(hf,"1.2.3.4","foo"); count_names(hf,2);', [], False),
        # line independence: arbitrary bytes next to valid lines
        ("junk_first", "9.9.9.999 @@@\n1.2.3.4 foo bar\n", 2, V + "count_names(hf,2); count_addrs(hf,1);", [], False),
        ("junk_last", "1.2.3.4 foo bar\n# @@@", 2, V + "count_names(hf,2); count_addrs(hf,1);", [], False),
        ("junk_between", "1.2.3.4 foo\n  #@@\n5.6.7.8 bar\n", 2,
         'name_has_ip(hf,"foo","1.2.3.4"); name_ipcount(hf,"foo",1); name_has_ip(hf,"bar","5.6.7.8"); name_ipcount(hf,"bar",1); addr_hostcount(hf,"1.2.3.4",1); '
         'addr_hostcount(hf,"5.6.7.8",1); count_names(hf,2); count_addrs(hf,2);', ["two addresses stored"], False),
        ("junkaddr_first", "5.6.7.8 @@\n1.2.3.4 foo bar\n", 2, V, ["junk defined a name", "two addresses stored"], False),
        ("junkaddr_last", "1.2.3.4 foo bar\n::1 @@", 2, V, ["junk defined a name", "two addresses stored"], False),
                ("tail", "1.2.3.4 foo @@\n5.6.7.8 bar\n", 2,
         'name_has_ip(hf,"foo","1.2.3.4"); name_ipcount(hf,"foo",1); name_has_ip(hf,"bar","5.6.7.8"); name_ipcount(hf,"bar",1); addr_canon(hf,"1.2.3.4","foo"); '
         'addr_hostcount(hf,"5.6.7.8",1); count_addrs(hf,2);', ["junk defined a name", "two addresses stored"], False),
        ("anybyte", "1.2.3.4 foo @@", 1, 'name_has_ip(hf,"foo","1.2.3.4"); addr_canon(hf,"1.2.3.4","foo"); count_addrs(hf,1);', [], True),
    ]
    for nm, text, names0, checks, wit, anybyte in shapes:
        n = len(text)
        holes = text.count("@")
        if holes:
            # NOT REGISTERED: every shape with arbitrary bytes in the file (2-3 holes, even when confined to a trailing comment or
            # to the alias region of a line with a concrete address) ended without a verdict after 150-240 CPU s; the concrete
            # shapes close in 5-18 s.  Line independence of the hosts reader is therefore covered by concrete junk/comment/
            # malformed-line shapes only (comments, badaddr, noname, badname, nonl).
            continue
        nl = text.count("\n") + 1 + holes
        u = pton_unwind(46)
        u.update({"strchr.0": 24, "fread.0": n + 1, "ares_parse_hosts.0": nl + 2, "ares_parse_hosts_hostnames.0": 8, "ares_buf_consume_line.0": n + 1,
                  "ares_buf_consume_whitespace.0": n + 1, "ares_buf_consume_nonwhitespace.0": n + 1, "ares_buf_tag_fetch_string.0": 47,
                  "memcpy.0": 47, "strlen.0": 47, "ares_strcpy.0": 47, "ares_is_hostname.0": 12, "ares_strcaseeq.0": 47, "strcasecmp.0": 47,
                  "ci_eq.0": 49, "list_count.0": 9, "wellformed.0": 8, "wellformed.1": 8, "wellformed.2": 8, "vp_strvp_nth.0": 8, "find.0": 8,
                  "vp_strvp_key_eq.0": 47, "ref_len.0": 47, "ares_htable_strvp_insert.0": 47, "ares_htable_strvp_insert.1": 47, "ares_htable_strvp_insert.2": 47,
                  "unlink_node.0": 8, "ares_htable_strvp_destroy.0": 8, "ares_llist_clear.0": 8, "ares_hosts_file_merge_entry.0": 6,
                  "ares_hosts_file_merge_entry.1": 6, "ares_hosts_file_match.0": 6, "ares_hosts_file_match.1": 6, "ares_hosts_file_add.0": 6,
                  "ares_hosts_entry_isdup.0": 6, "ares_buf_ensure_space.0": 8, "ares_inet_ntop.0": 10, "ares_inet_ntop.1": 10,
                  "inet_ntop4.0": 6, "inet_ntop6.0": 18, "inet_ntop6.1": 10, "inet_ntop6.2": 10, "inet_ntop6.3": 10, "strcpy.0": 47, "snprintf.0": 12, "snprintf.1": 47, "vp_put_num.0": 6, "vp_put_num.1": 6})
        J.append(dict(name="c15_hosts_%s" % nm, harness="hostsline.c",
                      defines=["-DTEXT=" + cq(text), "-DNAMES0=%d" % names0, "-DCHECKS=" + checks] + (["-DANYBYTE"] if anybyte else []),
                      real=HF_LIB, support=HF_SUP, unwind=12, unwindset=us(u), leak=True, kf_group="c15_hosts", native=False, timeout=150,
                      instrument=[["--restrict-function-pointer", "ares_llist_node_destroy.function_pointer_call.1/ares_free"]],
                      witnesses=["end", "names stored"] + wit,
                      bound="real ares_parse_hosts (+ ares_buf_load_file over in-memory stdio stubs) on the file %s%s; ares_htable_strvp = "
                            "reference container strvp_ref.c (association list, case-insensitive keys); expected lookups written per job from the "
                            "file-format documentation" % (repr(text), (", each '@' = an ARBITRARY byte" + (" (any value except line feed)" if anybyte else " of 'xyX \\t#.-'")) if holes else "")))
    return J


RL_LIB = ["src/lib/ares_library_init.c", "src/lib/str/ares_buf.c", "src/lib/str/ares_str.c", "src/lib/str/ares_strsplit.c",
          "src/lib/ares_hosts_file.c", "src/lib/dsa/ares_llist.c", "src/lib/util/ares_math.c", "src/lib/ares_sysconfig_files.c"]
RL_KEYS = [("domain", 1), ("search", 1), ("lookup", 2), ("hostresorder", 2), ("nameserver", 3), ("sortlist", 4), ("options", 5),
           ("nameservers", 0), ("#", 0), ("Search", 0)]


def resolvline_jobs(tier):
    J = []
    rfp = {"instrument": [["--restrict-function-pointer", "ares_llist_node_destroy.function_pointer_call.1/ares_free"]]}
    v0 = 4   # both tiers (deeper values for these keywords were not measured on the shared machine)
    # MODE 0: frame property, one symbolic line from an initial / a populated sysconfig
    for key, own, vprefix in [(k, o, "") for k, o in RL_KEYS] + [("lookup", 2, "bind ")] + ([] if tier == "quick" else [("search", 1, "a.b ")]):   # search_two: 229 s
        kn = {"#": "comment"}.get(key, key) + ("_two" if vprefix else "")
        kd = ["-DKW=" + q(key)] + (["-DVPREFIX=" + q(vprefix)] if vprefix else [])
        if key == "domain":
            kd.append("-DSINGLE_DOMAIN")
        v = v0
        if key in ("options", "sortlist", "nameserver"):
            # measured unloaded (value bytes 2/2/3): 85-113 s / 92-126 s / 100 s and 6-8 GB each; on the shared machine they were
            # killed for memory, and in the thorough tier they ended without a verdict (solver out of 12 GB) more often than not:
            # NOT registered in either tier.  Their value parsers are the c15_options_* / c15_sortlist_* / c15_nameserver_*
            # jobs; the line-level dispatch for these three keywords is exercised by the concrete lines of the
            # c15_resolvline_meta_* jobs only.
            continue
        if key == "options":
            kd.append("-DNOBLANK")
            v = 3   # measured: 2 value bytes 85-113 s, 3 bytes 130 s, 4 bytes 150-200 s
        if key == "nameserver":
            kd.append("-DNOSEP")
            v = 4   # measured: 3 value bytes 100 s, 4 value bytes 105 s
        if key == "sortlist":
            v = 2   # measured: 2 value bytes 92-126 s, 4 value bytes out of memory at 8 GB
        for pre in (0, 1):
            if own == 0 and pre == 0:
                continue
            if vprefix and pre == 1:
                continue
            vsym = v
            v = len(vprefix) + vsym   # value length
            n = len(key) + 1 + v
            tok = 1 if key in ("options", "nameserver") else (vsym + 1) // 2 + (1 if vprefix else 0)   # tokens the value can hold
            if key == "sortlist":
                # the only symbolic allocation size is the sortlist realloc (1 or 2 entries): case-split allocator
                kd = [k for k in kd if not k.startswith("-DVP_SIZES")] + ["-DVP_SIZES=24,48,%d,32,64,8,4,3,44" % n]
            u = pton_unwind(v)   # value-level loops see at most v bytes; line-level loops (keyword + value) use the global bound
            u.update({"ares_buf_tag_fetch_string.0": n + 1, "ares_buf_consume_whitespace.0": v + 2,
                      "memchr.0": v + 2, "ares_buf_consume_until_charset.0": v + 2})
            u.update({"ares_buf_split.2": v + 2, "raw_alloc.0": 10, "ares_buf_split.0": v + 1, "ares_buf_split.1": v + 1,
                      "ares_buf_split_isduplicate.0": tok + 1, "ares_buf_split_str_array.0": max(tok, 2) + 1,
                      "ares_free_array.1": max(tok, 2) + 1, "ares_array_destroy.0": max(tok, 2) + 1, "config_lookup.0": tok + 1,
                      "config_search.0": v + 2, "config_search.1": v + 2,   # (a fix adding a scan loop to config_search renumbers its loops) "ares_sysconfig_set_options.0": tok + 1, "ares_parse_sortlist.0": tok + 1,
                      "ares_sconfig_append_fromstr.0": tok + 1, "ares_array_insertdata_last.0": 9, "ares_array_insert_last.1": 9,
                      "pton_common.0": 18, "pton_common.1": 17, "pton_common.2": 17, "strtoul.0": v + 2, "strtoul.1": v + 2,
                      "ares_llist_clear.0": tok + 2, "harness.0": 13, "harness.1": 8, "harness.2": v + 2, "harness.3": 3,
                      "memcpy.0": max(n + 1, {"sortlist": 25, "nameserver": 21}.get(key, 0), 21 if pre else 0), "vp_realloc.0": 50, "ares_memeq_ci.0": v + 1, "strcasecmp.0": 9,
                      "ares_buf_fetch_str_dup.0": v + 1, "str_eq.0": 5, "domains_eq.0": 3, "sortlist_eq.0": 3, "servers_eq.0": 4,
                      "harness.4": 5, "harness.5": 4, "harness.6": 4, "ares_free_array.0": 3})
            J.append(dict(name="c15_resolvline_%s_pre%d" % (kn, pre), harness="resolvline.c",
                          defines=["-DMODE=0", "-DOWN=%d" % own, "-DV=%d" % vsym, "-DPRE=%d" % pre] + kd, real=RL_LIB,
                          support=SUP + ["pton_stub.c"], unwind=n + 2, unwindset=us(u), leak=True, kf_group="c15_resolvline", **rfp,
                          # value[512] is symbolic anyway: keep it out of element-wise field sensitivity (a symbolic index into it
                          # would be a 512-way case split); option[32] and the other small buffers stay element-wise
                          cbmc=["--max-field-sensitivity-array-size", "64"], mem_gb=12,
                          bound="one real ares_sysconfig_parse_resolv_line on '%s' + blank + %d ARBITRARY bytes%s from %s sysconfig" %
                                (key + (" " + vprefix if vprefix else ""), vsym, " (no blank: one option token)" if key == "options" else "",
                                 ("a freshly initialised", "a populated (1 domain, lookups, 1 server, 1 sortlist entry, arbitrary scalars)")[pre])))
            v = vsym
    v = v0
    # MODE 1: metamorphic, junk line next to one concrete valid line of every directive kind (two real runs)
    for key, own in RL_KEYS:
        if own != 0:
            continue
        for order in ((0,) if (tier == "quick" and key != "nameservers") else (0, 1)):
            kn = {"#": "comment"}.get(key, key)
            J.append(dict(name="c15_resolvline_meta_%s_%s" % (kn, ("junkfirst", "junklast")[order]), harness="resolvline.c",
                          defines=["-DMODE=1", "-DOWN=0", "-DV=%d" % v, "-DORDER=%d" % order, "-DKW=" + q(key)], real=RL_LIB,
                          support=SUP + ["pton_stub.c"], unwind=26, leak=True, kf_group="c15_resolvline", **rfp,
                          unwindset=us({"ares_array_insertdata_last.0": 9, "ares_array_insert_last.1": 9, "pton_common.0": 18,
                                        "pton_common.1": 17}),
                          bound="run A = ['%s' line with %d ARBITRARY value bytes %s one concrete valid line of every directive kind "
                                "(search/lookup/nameserver/sortlist/options)], run B = the concrete lines alone; real "
                                "ares_sysconfig_parse_resolv_line per line" % (key, v, ("followed by", "preceded by")[order])))
    return J


def envinit_jobs(tier):
    J = []
    vals = [("plain", "a.b"), ("two", "a b"), ("seps", " , "), ("tab", "a\\tb"), ("hibyte", "\\200bc"), ("comma", ",a")]
    for pre in (0, 1):
        for nm, val in vals:
            for resopt in ((0,) if tier == "quick" and nm not in ("plain", "tab") else (0, 1)):
                u = {"ares_buf_split.0": 6, "ares_buf_split.1": 6, "ares_buf_split.2": 6, "ares_strsplit.0": 6,
                     "ares_buf_split_str_array.0": 4, "ares_free_array.0": 4, "ares_free_array.1": 4, "ares_strsplit_free.0": 4,
                     "config_search.0": 6, "config_search.1": 6, "memchr.0": 6, "memcpy.0": 24, "strtoul.0": 4, "strtoul.1": 4}
                J.append(dict(name="c15_envinit_%s_pre%d_opt%d" % (nm, pre, resopt), harness="envinit.c",
                              defines=['-DVAL="%s"' % val, "-DPRE=%d" % pre, "-DRESOPT=%d" % resopt], real=RL_LIB, support=SUP + ["pton_stub.c"],
                              unwind=16, unwindset=us(u), leak=True, native=False, mem_gb=6, kf_group="c15_envinit",
                              witnesses=["end", "no LOCALDOMAIN"],
                              bound="ONE ares_init_by_environment: LOCALDOMAIN absent or '%s', RES_OPTIONS %s, from %s sysconfig; getenv = stub"
                                    % (val, "'ndots:2'" if resopt else "absent", ("a fresh", "a populated (search a.b)")[pre])))
    return J


def hostaliases_jobs(tier):
    J = []
    shapes = [("F%d" % l, "", l, "ab") for l in ((6,) if tier == "quick" else (6, 7))]
    # fixed buffers: hostname[64] (token of 62..66 chars), fqdn[256] (second token of 253..257 chars)
    shapes.append(("hostname64", "a" * 62, 4, "a" * 63))
    # fqdn[256] probe (second token of 253..257 chars): no verdict - 240 s timeout at quick, out of memory (14 GB) after 427 s at
    # thorough; not registered.  shapes.append(("fqdn256", "ab " + "b" * 253, 4, "ab"))
    for nm, prefix, fl, name in shapes:
        n = len(prefix) + fl
        lines = 1 if prefix else fl + 1
        u = {"ares_buf_split.2": lines + 1, "ares_buf_split.0": fl + 2, "ares_buf_split.1": fl + 2,
             "ares_lookup_hostaliases.0": lines + 1, "ares_array_destroy.0": lines + 1, "ares_array_insertdata_last.0": 9,
             "ares_array_insert_last.1": 9, "ares_buf_ensure_space.0": 6, "fread.1": fl + 1, "harness.0": fl + 2, "strlen.0": max(n + 2, 8),
             "ares_is_hostname.0": (n if prefix else fl) + 2}
        J.append(dict(name="c15_hostaliases_%s" % nm, harness="hostaliases.c",
                      defines=["-DFL=%d" % fl, "-DPREFIX=" + q(prefix), "-DNAME=" + q(name)] + (["-DNONL", "-DCHK=0"] if prefix else []),
                      real=LIB + ["src/lib/ares_search.c"], support=SUP, unwind=n + 3, unwindset=us(u), leak=True, native=False,
                      witnesses=["end", "alias found", "file read, no match"] + (["file error"] if not prefix else []),
                      bound="ares_lookup_hostaliases(name '%s') on an aliases file = %s%d ARBITRARY bytes; $HOSTALIASES set or not, "
                            "file present or not, ARES_FLAG_NOALIASES set or not" %
                            (name if len(name) < 8 else name[0] + "*%d" % len(name), ("%d concrete bytes + " % len(prefix)) if prefix else "", fl)))
    return J


def jobs(tier, seed):
    J = []
    J += options_jobs(tier)
    J += nameserver_jobs(tier)
    J += sortlist_jobs(tier)
    J += pton_jobs(tier)
    J += nsuri_jobs(tier)
    J += sysconf_jobs(tier)
    J += hosts_jobs(tier)
    J += resolvline_jobs(tier)
    J += envinit_jobs(tier)
    J += hostaliases_jobs(tier)
    if tier == "quick":
        for job in J:   # measured unloaded: every quick job <= 130 s; the machine is shared, leave head room
            job.setdefault("timeout", 480)
            job["mem_gb"] = min(job.get("mem_gb", 6), 6)   # shared machine: no quick job may need more than 6 GB
    return J
