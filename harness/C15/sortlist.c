/* C15 / c15_sortlist: ares_parse_sortlist() (resolv.conf "sortlist", ares_set_sortlist()) on arbitrary text over
 * the sortlist alphabet.
 * Real: ares_sysconfig_files.c (ares_parse_sortlist, static parse_sort / sortlist_append / ip_natural_mask),
 *       str/ares_buf.c, str/ares_str.c, inet_net_pton.c, ares_hosts_file.c (only ares_dns_pton is reached),
 *       util/ares_math.c (ares_count_bits_u8), ares_library_init.c.
 * Stubs: ares_array = array_ref.c.
 * text = PREFIX (concrete) + L bytes, each an arbitrary member of CHARSET; -DSPLIT_AT=k plants a separator
 * (blank or ';') at byte k (CHARSET then has no separator, so the entry count is fixed: 1 or 2).
 * Oracle: only SUCCESS / EBADSTR / EFORMERR; on failure *sortlist == NULL and *nsort == 0; every stored entry has
 * family AF_INET with mask 0..32 or AF_INET6 with mask 0..128; a purely numeric "/n" suffix yields mask == n
 * (c15_sort_mask: no silent wrap of a huge number; selectors KF_c15_sort_mask / KFONLY_c15_sort_mask); the previous list passed in is released; nothing leaks. */
#include "vp.h"
#include "ares_private.h"
#include <string.h>

#ifndef L
#  define L 4
#endif
#ifndef PREFIX
#  define PREFIX ""
#endif
#ifndef CHARSET
#  define CHARSET "0123456789./:abcdef\t"
#endif
#define PL (sizeof(PREFIX) - 1)
#define N  (PL + L)

static int isdig(unsigned char c) { return c >= '0' && c <= '9'; }

void harness(void)
{
  static const char cs[]  = CHARSET;
  static const char pre[] = PREFIX;
  char             *text;
  struct apattern  *sl = NULL;
  size_t            ns, i;
  ares_status_t     st;

  vp_alloc_install();
  text = vp_malloc(N + 1);
  for (i = 0; i < PL; i++)
    text[i] = pre[i];
  for (i = 0; i < L; i++) {
    uint8_t k = vp_u8();
    VP_ASSUME(k < sizeof(cs) - 1);
    text[PL + i] = cs[k];
  }
#ifdef SPLIT_AT
  text[SPLIT_AT] = vp_bool() ? ' ' : ';';
#endif
  text[N] = 0;
  if (vp_bool()) { /* a previous list is replaced, not leaked */
    sl = vp_malloc(sizeof(*sl));
    memset(sl, 0, sizeof(*sl));
  }
  ns = vp_range(0, 1);

  st = ares_parse_sortlist(&sl, &ns, text);
  VP_ASSERT(st == ARES_SUCCESS || st == ARES_EBADSTR || st == ARES_EFORMERR, "sortlist text gives success or a bad-string/format error");
  if (st != ARES_SUCCESS) {
    VP_ASSERT(sl == NULL && ns == 0, "a rejected sortlist leaves an empty list");
    VP_WITNESS("rejected");
  } else {
    VP_ASSERT((sl == NULL) == (ns == 0), "list pointer and count agree");
#ifdef SPLIT_AT
    VP_ASSERT(ns <= 2, "at most one entry per separated token");
#else
    VP_ASSERT(ns <= 1, "at most one entry per separated token");
#endif
    for (i = 0; i < ns; i++) {
      VP_ASSERT(sl[i].addr.family == AF_INET || sl[i].addr.family == AF_INET6, "sortlist entry has an IPv4 or IPv6 family");
      VP_ASSERT(sl[i].mask <= (sl[i].addr.family == AF_INET ? 32 : 128), "sortlist mask within 0..32 (IPv4) / 0..128 (IPv6)");
    }
#ifndef SPLIT_AT
    if (ns == 1) {
      /* numeric /n suffix: independent scan */
      size_t slash, nd = 0;
      unsigned long v = 0;
      int           alld = 1;
      for (slash = 0; slash < N && text[slash] != '/'; slash++)
        ;
      if (slash < N) {
        for (i = slash + 1; i < N; i++) {
          if (isdig((unsigned char)text[i])) {
            if (v <= 100000000000000UL)
              v = v * 10 + (unsigned long)(text[i] - '0');
            nd++;
          } else {
            alld = 0;
          }
        }
        if (alld && nd > 0) {
#ifdef KF_c15_sort_mask
          VP_ASSUME(v <= 128);
#endif
#ifdef KFONLY_c15_sort_mask
          VP_ASSUME(v > 128);
#endif
          VP_ASSERT(v <= 128, "c15_sort_mask: an accepted numeric mask is the number written (no wrap of a huge value)");
          VP_ASSERT(sl[0].mask == v, "numeric mask equals the number written");
          VP_WITNESS("numeric mask");
        } else if (nd > 0) {
          VP_WITNESS("dotted mask");
        }
      } else {
        VP_ASSERT(sl[0].mask == (sl[0].addr.family == AF_INET6 ? 64 : (((unsigned char *)&sl[0].addr.addr.addr4)[0] < 128 ? 8 : ((unsigned char *)&sl[0].addr.addr.addr4)[0] < 192 ? 16 : 24)),
                  "no mask text means the natural (classful) mask, /64 for IPv6");
        VP_WITNESS("natural mask");
      }
      if (sl[0].addr.family == AF_INET6) VP_WITNESS("ipv6 entry");
    }
#endif
    if (ns == 2) VP_WITNESS("two entries");
    if (ns == 0) VP_WITNESS("empty list");
  }
  ares_free(sl);
  vp_free(text);
  VP_ASSERT(vp_alloc_live == 0, "sortlist parsing leaves no allocation behind");
  VP_WITNESS("end");
}
