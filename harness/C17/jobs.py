OUTSIDE = ("sequences of sends/replies (each job is ONE ares_cookie_apply or ONE ares_cookie_validate from an arbitrary "
           "cookie state satisfying the representation invariant, which both operations re-establish); the wire encoding of "
           "the OPT RR (abstract 1-slot COOKIE option store); more than one COOKIE option per OPT RR; clock values above 2^40 s; "
           "what ares_requeue_query does with the query (recorder stub; the real one is covered by C01/C06)")
ASSUMPTIONS = ["record layer abstracted: each record has at most one OPT RR with at most one COOKIE option; a zero-length option "
               "has a NULL value pointer (as the real parser/setter produce); option values are exact-size heap objects",
               "ares_dns_rr_set_opt may fail with ARES_ENOMEM (then the request is unchanged); ares_dns_rr_del_opt_byid never fails "
               "other than ENOTFOUND",
               "ares_rand_bytes returns arbitrary bytes; ares_requeue_query is a recorder returning an arbitrary status",
               "cookie state invariant inv() in cookie_step.c (state enumerator; server_len 0 or 8..32; INITIAL all-zero; "
               "UNSUPPORTED has no cookies on file; timestamps 0..2^40 s with usec<10^6; client_ip AF_UNSPEC/AF_INET/AF_INET6)",
               "request seen by validate is as apply leaves it: COOKIE option absent or 8 / 16..40 bytes",
               "query invariant: cookie_try_count < 3 or using_tcp already set (using_tcp is never cleared in the library)",
               "timer periods are the constants defined in ares_cookie.c; the unsupported back-off may be either "
               "COOKIE_REGRESSION_TIMEOUT_MS (used) or COOKIE_UNSUPPORTED_TIMEOUT_MS (documented)"]

import os

REAL = ["src/lib/ares_timeout.c"]
EXTRA = os.environ.get("VP_C17_DEFS", "").split()  # experiments, e.g. VP_C17_DEFS="-DKF_cookie_len_9_15 ..."


def sizes(*extra):
    return "-DVP_SIZES=" + ",".join(str(i) for i in sorted(set((1, 8, 24, 40) + tuple(e for e in extra if e > 0))))


STATES = ["INITIAL", "GENERATED", "SUPPORTED", "UNSUPPORTED"]


def w_apply(slen, st):
    w = ["end", "no opt", "tcp removes cookie", "set_opt failed"]
    if st in (1, 2):
        w += ["ip changed", "unspec self ip, steady state"]
    if st == 2:
        w += ["rotated", "regression reset", "odd timestamp in SUPPORTED"]
        if slen:
            w += ["echo server cookie"]
    if st == 0:
        w += ["generated from initial"]
    if st == 3:
        w += ["unsupported waits", "unsupported retry"]
    return w


def w_valid(rlen):
    if rlen < 0:
        return ["end", "no request cookie", "supported cookieless dropped", "badcookie w/o cookie dropped",
                "generated -> unsupported", "unsupported accepted", "odd timestamp in SUPPORTED"]
    if rlen == 0 or rlen == 8:
        return ["end", "cookie without server part"]
    if rlen < 8 or rlen > 40:
        return ["end", "malformed dropped"]
    if rlen < 16:
        return ["end", "short server cookie"]
    return ["end", "no request cookie", "spoof dropped", "server cookie learned", "server cookie not saved (client rotated)",
            "badcookie requeue", "badcookie -> tcp"]


def jobs(tier, seed):
    J = []
    for slen in ((0, 8, 32) if tier == "quick" else [0] + list(range(8, 33))):
        for st in ((0, 1, 2, 3) if slen == 0 else (1, 2)):
            J.append(dict(name="cookie_apply_%s_s%d" % (STATES[st].lower(), slen), harness="cookie_step.c",
                          defines=["-DOP=0", "-DSLEN=%d" % slen, "-DSTATE=%d" % st, sizes(8 + slen)], real=REAL, unwind=43,
                          backend="cadical", witnesses=w_apply(slen, st), kf_group="cookie_apply",
                          bound="arbitrary cookie state in %s with server cookie length %d (any client/server cookie bytes, any "
                                "timestamps in 0..2^40 s), any now, UDP/TCP(+TFO flags), self_ip AF_INET/AF_INET6/AF_UNSPEC with any "
                                "bytes, request with/without OPT and with/without a previous COOKIE option of 0|8|24|40 bytes, option "
                                "write may fail; ONE ares_cookie_apply" % (STATES[st], slen)))
    for rlen in ((-1, 0, 7, 8, 9, 15, 16, 27, 40, 41) if tier == "quick" else range(-1, 42)):
        J.append(dict(name="cookie_validate_r%s" % ("none" if rlen < 0 else "%d" % rlen), harness="cookie_step.c",
                      defines=["-DOP=1", "-DRLEN=%d" % rlen, sizes(rlen)], real=REAL, unwind=43, witnesses=w_valid(rlen),
                      kf_group="cookie_validate",
                      bound="arbitrary cookie state (4 states, server_len 0|8..32, any bytes/timestamps), any now, request without "
                            "OPT / without cookie / with cookie of 8|24|40 symbolic bytes, response %s, any rcode 0..24 (incl. "
                            "BADCOOKIE), cookie_try_count any with (count<3 or using_tcp); ONE ares_cookie_validate" %
                            ("without COOKIE option (with or without OPT)" if rlen < 0 else
                             "with a COOKIE option of %d symbolic bytes" % rlen)))
    for j in J:
        j["defines"] = j["defines"] + EXTRA
    return J
