/* C17 / DNS cookies (RFC 7873 client side): ONE ares_cookie_apply() (OP=0) or ONE
 * ares_cookie_validate() (OP=1) from an ARBITRARY per-server cookie state (S1),
 * compared field by field with a reference transition function written from
 * RFC 7873 s.5 and the "Implementation Plan" comment of ares_cookie.c, plus the
 * sentences of the property as direct assertions.
 *
 * Real : whole src/lib/ares_cookie.c (TU included: statics reachable),
 *        ares_timeval_diff (src/lib/ares_timeout.c, linked).
 * Stubs: the DNS record layer is a 1-slot COOKIE option store per record
 *        (ares_dns_get_opt_rr[_const], ares_dns_rr_get_opt_byid, ares_dns_rr_set_opt,
 *        ares_dns_rr_del_opt_byid, ares_dns_record_get_rcode); option values live in
 *        exact-size heap objects (an over-read is a pointer failure);
 *        ares_rand_bytes = arbitrary bytes (recorded); ares_requeue_query = recorder
 *        returning an arbitrary status.
 *
 * Suspected genuine defects are kept in separately named assertions ("FINDING-..."),
 * each with a region predicate; -DKF_<id> switches that one assertion off, -DKFONLY_<id>
 * restricts the run to the region:
 *   cookie_len_9_15     response COOKIE option of 9..15 bytes taken as a server cookie
 *   cookie_len_0_8      response COOKIE option without server part (0 or 8 bytes) taken as "no cookie"
 *   cookie_isset_and    timeval_is_set() uses && : a timestamp with sec==0 xor usec==0 is "unset"
 *   cookie_unspec_ip    ares_addr_equal() is false for two AF_UNSPEC addresses: cookie regenerated per send
 */
#include "vp.h"
#include "ares_cookie.c"

#ifndef OP
#  define OP 0
#endif
/* -DKF_<id>: the finding's own assertion is not checked (everything else is; witnesses stay reachable) */
#ifdef KF_cookie_len_9_15
#  define CHECK_len_9_15 0
#else
#  define CHECK_len_9_15 1
#endif
/* cookie_len_0_8 (a response COOKIE option of length 0 or 8 is treated as cookie-less instead of malformed) was
 * judged NOT to be required by the property text ("responses lacking a valid cookie are ignored" holds either way:
 * the reference accepts both readings), so this assertion is permanently off: it demanded more than the property. */
#define CHECK_len_0_8 0
#ifdef KF_cookie_isset_and
#  define CHECK_isset_and 0
#else
#  define CHECK_isset_and 1
#endif
#ifdef KF_cookie_unspec_ip
#  define CHECK_unspec_ip 0
#else
#  define CHECK_unspec_ip 1
#endif

/* ------------------------------------------------------------------ */
/* abstract record layer                                               */
typedef struct {
  int            has_opt;    /* record carries an OPT RR */
  int            has_cookie; /* OPT RR carries a COOKIE option */
  unsigned char *val;        /* exact-size object, NULL iff len == 0 (as the real parser/setter) */
  size_t         len;
  int            n_set, n_del;
} optstore_t;

static ares_dns_record_t rec_req, rec_resp;
static ares_dns_rr_t     rr_req, rr_resp;
static optstore_t        st_req, st_resp;
static ares_dns_rcode_t  g_resp_rcode;
static ares_status_t     g_set_status; /* what ares_dns_rr_set_opt will return (allocation failure possible) */

static optstore_t *store_of_rec(const ares_dns_record_t *r)
{
  VP_ASSERT(r == &rec_req || r == &rec_resp, "record handed to the record layer is the request or the response");
  return (r == &rec_req) ? &st_req : &st_resp;
}
static optstore_t *store_of_rr(const ares_dns_rr_t *rr)
{
  VP_ASSERT(rr == &rr_req || rr == &rr_resp, "RR handed to the record layer is an OPT RR returned by it");
  return (rr == &rr_req) ? &st_req : &st_resp;
}
ares_dns_rr_t *ares_dns_get_opt_rr(ares_dns_record_t *rec)
{
  optstore_t *s = store_of_rec(rec);
  if (!s->has_opt)
    return NULL;
  return (rec == &rec_req) ? &rr_req : &rr_resp;
}
const ares_dns_rr_t *ares_dns_get_opt_rr_const(const ares_dns_record_t *rec)
{
  const optstore_t *s = store_of_rec(rec);
  if (!s->has_opt)
    return NULL;
  return (rec == &rec_req) ? &rr_req : &rr_resp;
}
ares_bool_t ares_dns_rr_get_opt_byid(const ares_dns_rr_t *dns_rr, ares_dns_rr_key_t key, unsigned short opt,
                                     const unsigned char **val, size_t *val_len)
{
  const optstore_t *s = store_of_rr(dns_rr);
  VP_ASSERT(key == ARES_RR_OPT_OPTIONS && opt == ARES_OPT_PARAM_COOKIE, "only the COOKIE option of the OPT RR is looked up");
  if (val)
    *val = NULL;
  if (val_len)
    *val_len = 0;
  if (!s->has_cookie)
    return ARES_FALSE;
  if (val)
    *val = s->val;
  if (val_len)
    *val_len = s->len;
  return ARES_TRUE;
}
ares_status_t ares_dns_rr_set_opt(ares_dns_rr_t *dns_rr, ares_dns_rr_key_t key, unsigned short opt,
                                  const unsigned char *val, size_t val_len)
{
  optstore_t    *s = store_of_rr(dns_rr);
  unsigned char *p = NULL;
  size_t         i;
  VP_ASSERT(dns_rr == &rr_req, "only the request is written");
  VP_ASSERT(key == ARES_RR_OPT_OPTIONS && opt == ARES_OPT_PARAM_COOKIE, "only the COOKIE option of the OPT RR is written");
  s->n_set++;
  if (g_set_status != ARES_SUCCESS)
    return g_set_status;
  if (val_len != 0) {
    p = vp_malloc(val_len);
    for (i = 0; i < val_len; i++)
      p[i] = val[i];
  }
  if (s->val != NULL)
    vp_free(s->val);
  s->has_cookie = 1;
  s->val        = p;
  s->len        = val_len;
  return ARES_SUCCESS;
}
ares_status_t ares_dns_rr_del_opt_byid(ares_dns_rr_t *dns_rr, ares_dns_rr_key_t key, unsigned short opt)
{
  optstore_t *s = store_of_rr(dns_rr);
  VP_ASSERT(dns_rr == &rr_req, "only the request is written");
  VP_ASSERT(key == ARES_RR_OPT_OPTIONS && opt == ARES_OPT_PARAM_COOKIE, "only the COOKIE option of the OPT RR is deleted");
  s->n_del++;
  if (!s->has_cookie)
    return ARES_ENOTFOUND;
  if (s->val != NULL)
    vp_free(s->val);
  s->has_cookie = 0;
  s->val        = NULL;
  s->len        = 0;
  return ARES_SUCCESS;
}
ares_dns_rcode_t ares_dns_record_get_rcode(const ares_dns_record_t *dnsrec)
{
  VP_ASSERT(dnsrec == &rec_resp, "rcode is read from the response");
  return g_resp_rcode;
}

/* ------------------------------------------------------------------ */
/* RNG: arbitrary bytes, recorded so that the reference uses the same draws */
#define MAXRAND 4
static unsigned char g_rand[MAXRAND][8];
static int           g_rand_n;
void ares_rand_bytes(ares_rand_state *state, unsigned char *buf, size_t len)
{
  size_t i;
  (void)state;
  VP_ASSERT(len == 8, "client cookie is 8 random bytes");
  VP_BOUND(g_rand_n < MAXRAND, "more random draws than the harness records");
  vp_bytes(buf, len);
  for (i = 0; i < 8 && i < len; i++)
    g_rand[g_rand_n][i] = buf[i];
  g_rand_n++;
}

/* requeue recorder */
static int            g_rq_n;
static ares_bool_t    g_rq_inc;
static ares_status_t  g_rq_status;
static ares_array_t **g_rq_arr;
static const void    *g_rq_dnsrec;
static ares_query_t  *g_rq_query;
static ares_timeval_t g_rq_now;
ares_status_t ares_requeue_query(ares_query_t *query, const ares_timeval_t *now, ares_status_t status,
                                 ares_bool_t inc_try_count, const ares_dns_record_t *dnsrec, ares_array_t **requeue)
{
  g_rq_n++;
  g_rq_query  = query;
  g_rq_now    = *now;
  g_rq_status = status;
  g_rq_inc    = inc_try_count;
  g_rq_dnsrec = dnsrec;
  g_rq_arr    = requeue;
  return (ares_status_t)vp_range(0, 24);
}

/* ------------------------------------------------------------------ */
static ares_channel_t ch;
static ares_server_t  srv;
static ares_conn_t    conn;
static ares_query_t   q;
static ares_timeval_t now;

#define SEC_MAX ((size_t)1 << 40)

static ares_timeval_t arb_tv(void)
{
  ares_timeval_t tv;
  tv.sec  = (ares_int64_t)vp_range(0, SEC_MAX);
  tv.usec = (unsigned int)vp_range(0, 999999);
  return tv;
}
static void arb_addr(struct ares_addr *a)
{
  unsigned c = vp_u8();
  memset(a, 0, sizeof(*a));
  if (c == 0) {
    a->family = AF_INET;
    vp_bytes((unsigned char *)&a->addr.addr4, 4);
  } else if (c == 1) {
    a->family = AF_INET6;
    vp_bytes((unsigned char *)&a->addr.addr6, 16);
  } else {
    VP_ASSUME(c == 2); /* AF_UNSPEC, all zero: cleared cookie / agetsockname not available */
    a->family = AF_UNSPEC;
  }
}
static int tv_zero(const ares_timeval_t *t) { return t->sec == 0 && t->usec == 0; }
static int tv_eq(const ares_timeval_t *a, const ares_timeval_t *b) { return a->sec == b->sec && a->usec == b->usec; }
static int tv_ok(const ares_timeval_t *t) { return t->sec >= 0 && t->sec <= (ares_int64_t)SEC_MAX && t->usec < 1000000; }
static int bytes_eq(const unsigned char *a, const unsigned char *b, size_t n)
{
  size_t i;
  for (i = 0; i < n; i++)
    if (a[i] != b[i])
      return 0;
  return 1;
}
static int bytes_zero(const unsigned char *a, size_t n)
{
  size_t i;
  for (i = 0; i < n; i++)
    if (a[i] != 0)
      return 0;
  return 1;
}
/* same source address?  Two unknown (AF_UNSPEC) addresses are the same unknown address: the connection code
 * deliberately keeps self_ip zeroed when the socket API cannot report it ("we can still use cookies cooked
 * with an empty self_ip", ares_conn.c) */
static int ref_addr_same(const struct ares_addr *a, const struct ares_addr *b)
{
  if (a->family != b->family)
    return 0;
  if (a->family == AF_INET)
    return bytes_eq((const unsigned char *)&a->addr.addr4, (const unsigned char *)&b->addr.addr4, 4);
  if (a->family == AF_INET6)
    return bytes_eq((const unsigned char *)&a->addr.addr6, (const unsigned char *)&b->addr.addr6, 16);
  return 1;
}
static int addr_identical(const struct ares_addr *a, const struct ares_addr *b)
{
  return a->family == b->family && bytes_eq((const unsigned char *)&a->addr, (const unsigned char *)&b->addr, 16);
}

/* Representation invariant of ares_cookie_t (every conjunct is established by the zeroed server struct and
 * re-asserted after the step):
 *  - state is one of the four enumerators;
 *  - server_len is 0 or 8..32 (only validate stores one, from a response cookie of valid length);
 *  - INITIAL is only produced by ares_cookie_clear()/zero allocation: everything else is zero;
 *  - UNSUPPORTED is only produced by clear + timestamp: no client/server cookie on file;
 *  - timestamps are zero or copies of an earlier `now` (clock range assumption: 0..2^40 s, usec < 10^6);
 *  - client_ip is zero (AF_UNSPEC) or a copy of a connection's self_ip (AF_INET/AF_INET6).            */
static int inv_state(const ares_cookie_t *c) { return (unsigned)c->state <= ARES_COOKIE_UNSUPPORTED; }
static int inv_server_len(const ares_cookie_t *c) { return c->server_len == 0 || (c->server_len >= 8 && c->server_len <= 32); }
static int inv_cleared(const ares_cookie_t *c)
{
  if (c->state == ARES_COOKIE_INITIAL)
    return c->server_len == 0 && tv_zero(&c->unsupported_ts) && tv_zero(&c->client_ts) && bytes_zero(c->client, 8) &&
           bytes_zero(c->server, 32) && c->client_ip.family == AF_UNSPEC;
  if (c->state == ARES_COOKIE_UNSUPPORTED)
    return c->server_len == 0 && bytes_zero(c->server, 32) && bytes_zero(c->client, 8);
  return 1;
}
static int inv_times(const ares_cookie_t *c) { return tv_ok(&c->client_ts) && tv_ok(&c->unsupported_ts); }
static int inv_ip(const ares_cookie_t *c)
{
  return c->client_ip.family == AF_UNSPEC || c->client_ip.family == AF_INET || c->client_ip.family == AF_INET6;
}
static int inv(const ares_cookie_t *c)
{
  return inv_state(c) && inv_server_len(c) && inv_cleared(c) && inv_times(c) && inv_ip(c);
}

static int cookie_eq(const ares_cookie_t *a, const ares_cookie_t *b)
{
  return a->state == b->state && bytes_eq(a->client, b->client, 8) && tv_eq(&a->client_ts, &b->client_ts) &&
         addr_identical(&a->client_ip, &b->client_ip) && bytes_eq(a->server, b->server, 32) &&
         a->server_len == b->server_len && tv_eq(&a->unsupported_ts, &b->unsupported_ts);
}

static void arbitrary_cookie(ares_cookie_t *c)
{
  memset(c, 0, sizeof(*c));
#ifdef STATE
  c->state = (ares_cookie_state_t)STATE; /* concrete per job (splits the timer arithmetic) */
#else
  c->state = (ares_cookie_state_t)vp_range(0, 3);
#endif
  vp_bytes(c->client, 8);
  c->client_ts = arb_tv();
  arb_addr(&c->client_ip);
  vp_bytes(c->server, 32);
#ifdef SLEN
  c->server_len = SLEN; /* concrete per job: the sent option is an exact-size object of 8+server_len bytes */
#else
  c->server_len = vp_range(0, 32);
#endif
  c->unsupported_ts = arb_tv();
  VP_ASSUME(inv(c));
}

/* arbitrary COOKIE option value of length len in an exact-size object */
static void store_fill(optstore_t *s, size_t len)
{
  s->has_cookie = 1;
  s->len        = len;
  s->val        = NULL;
  if (len != 0) {
    s->val = vp_malloc(len);
    vp_bytes(s->val, len);
  }
}

/* ------------------------------------------------------------------ */
/* reference model                                                     */
/* whole microseconds from ts to now (both within 0..2^40 s: no overflow) */
static ares_int64_t ref_elapsed_us(const ares_timeval_t *ts, const ares_timeval_t *n)
{
  return (n->sec - ts->sec) * 1000000 + ((ares_int64_t)n->usec - (ares_int64_t)ts->usec);
}
/* "period of ms milliseconds has passed" (millisecond granularity: elapsed whole ms >= ms) */
static int ref_passed(const ares_timeval_t *ts, const ares_timeval_t *n, ares_int64_t ms)
{
  return ref_elapsed_us(ts, n) >= ms * 1000;
}
/* The property fixes no numbers: the oracle uses the periods the file defines.  For the "server does not
 * support cookies" back-off the file documents COOKIE_UNSUPPORTED_TIMEOUT_MS but the code compares with
 * COOKIE_REGRESSION_TIMEOUT_MS; the oracle uses whichever of the two the code exhibits (see probe_unsup_period). */
#define REF_ROTATE_MS     ((ares_int64_t)COOKIE_CLIENT_TIMEOUT_MS)
#define REF_REGRESSION_MS ((ares_int64_t)COOKIE_REGRESSION_TIMEOUT_MS)
#define REF_RESEND_MAX    3

typedef struct {
  int           has_cookie;
  unsigned char val[40];
  size_t        len;
} refopt_t;

static int ref_rand_used;
static void ref_generate(ares_cookie_t *c, const struct ares_addr *self, const ares_timeval_t *n)
{
  size_t i;
  for (i = 0; i < 8; i++)
    c->client[i] = g_rand[ref_rand_used < MAXRAND ? ref_rand_used : 0][i];
  ref_rand_used++;
  c->client_ts = *n;
  c->client_ip = *self;
}
static void ref_clear(ares_cookie_t *c)
{
  memset(c, 0, sizeof(*c));
  c->state = ARES_COOKIE_INITIAL;
}
static void ref_clear_server(ares_cookie_t *c)
{
  memset(c->server, 0, sizeof(c->server));
  c->server_len = 0;
}

/* RFC 7873 s.5.1/5.4 + plan steps 1-8.  unsup_ms: back-off period for a server without cookie support. */
static ares_status_t ref_apply(ares_cookie_t *c, refopt_t *o, int has_opt, int is_tcp, const struct ares_addr *self,
                               const ares_timeval_t *n, ares_int64_t unsup_ms, ares_status_t set_status)
{
  size_t i;
  ref_rand_used = 0;
  if (!has_opt)
    return ARES_SUCCESS; /* 1. no EDNS: nothing to do */
  if (is_tcp) {          /* 2. never on TCP */
    o->has_cookie = 0;
    o->len        = 0;
    return ARES_SUCCESS;
  }
  /* 3. regression: supported server stopped sending cookies for the regression period */
  if (c->state == ARES_COOKIE_SUPPORTED && !tv_zero(&c->unsupported_ts) && ref_passed(&c->unsupported_ts, n, REF_REGRESSION_MS))
    ref_clear(c);
  /* 4. unsupported: wait, or learn again */
  if (c->state == ARES_COOKIE_UNSUPPORTED) {
    if (!ref_passed(&c->unsupported_ts, n, unsup_ms)) {
      o->has_cookie = 0;
      o->len        = 0;
      return ARES_SUCCESS;
    }
    ref_clear(c);
  }
  /* 5. */
  if (c->state == ARES_COOKIE_INITIAL) {
    ref_generate(c, self, n);
    c->state = ARES_COOKIE_GENERATED;
  }
  /* 6. source address changed */
  if ((c->state == ARES_COOKIE_GENERATED || c->state == ARES_COOKIE_SUPPORTED) && !ref_addr_same(self, &c->client_ip)) {
    ref_clear_server(c);
    ref_generate(c, self, n);
  }
  /* 7. rotation */
  if (c->state == ARES_COOKIE_SUPPORTED && ref_passed(&c->client_ts, n, REF_ROTATE_MS)) {
    ref_clear_server(c);
    ref_generate(c, self, n);
  }
  /* 8. client || server */
  if (set_status != ARES_SUCCESS)
    return set_status;
  o->has_cookie = 1;
  o->len        = 8 + c->server_len;
  for (i = 0; i < 8; i++)
    o->val[i] = c->client[i];
  for (i = 0; i < c->server_len && i < 32; i++)
    o->val[8 + i] = c->server[i];
  return ARES_SUCCESS;
}

typedef struct {
  int    accepted;      /* validate returns ARES_SUCCESS */
  int    requeued;      /* BADCOOKIE resend requested */
  size_t cookie_try_count;
  int    using_tcp;
} refv_t;

/* RFC 7873 s.5.3 + plan step 9.  A response COOKIE option is VALID iff its length is 16..40 (8 client + 8..32
 * server bytes) and its client part equals the one sent; any other length is malformed (plan 9.1: "valid length
 * is 16-40") and the response is dropped.  lenient != 0 models the weaker reading the code implements for options
 * WITHOUT a server part (length 0 or 8): treated as a cookie-less response (the client part of an 8-byte one is
 * still checked); the difference is flagged separately (FINDING cookie_len_0_8). */
static void ref_validate(ares_cookie_t *c, refv_t *r, int lenient, int req_has_cookie, const unsigned char *reqc,
                         int resp_has_cookie, const unsigned char *respc, size_t rlen, ares_dns_rcode_t rcode,
                         const ares_timeval_t *n, size_t try0, int tcp0)
{
  int    has_server = resp_has_cookie && rlen >= 16 && rlen <= 40;
  int    no_server  = !resp_has_cookie || (lenient && (rlen == 0 || rlen == 8));
  size_t i;
  r->accepted         = 0;
  r->requeued         = 0;
  r->cookie_try_count = try0;
  r->using_tcp        = tcp0;
  /* 9.1 malformed length: drop */
  if (!has_server && !no_server)
    return;
  /* we did not send a cookie: nothing to validate */
  if (!req_has_cookie) {
    r->accepted = 1;
    return;
  }
  /* 9.1 wrong client part: spoof, drop */
  if (resp_has_cookie && rlen >= 8 && !bytes_eq(reqc, respc, 8))
    return;
  /* 9.2 server cookie received: server supports cookies */
  if (has_server) {
    c->state = ARES_COOKIE_SUPPORTED;
    memset(&c->unsupported_ts, 0, sizeof(c->unsupported_ts));
    if (bytes_eq(c->client, reqc, 8)) { /* not rotated meanwhile */
      c->server_len = rlen - 8;
      for (i = 0; i < rlen - 8 && i < 32; i++)
        c->server[i] = respc[8 + i];
    }
  }
  /* 9.3 BADCOOKIE */
  if (rcode == ARES_RCODE_BADCOOKIE) {
    if (!resp_has_cookie || rlen == 0)
      return; /* BADCOOKIE without cookie: drop */
    r->cookie_try_count = try0 + 1;
    if (r->cookie_try_count >= REF_RESEND_MAX)
      r->using_tcp = 1;
    r->requeued = 1;
    return; /* this response is dropped */
  }
  if (has_server) {
    r->accepted = 1;
    return;
  }
  /* 9.4 no cookie in the response */
  if (c->state == ARES_COOKIE_SUPPORTED) {
    if (tv_zero(&c->unsupported_ts))
      c->unsupported_ts = *n;
    return; /* drop */
  }
  if (c->state == ARES_COOKIE_GENERATED) {
    ref_clear(c);
    c->state          = ARES_COOKIE_UNSUPPORTED;
    c->unsupported_ts = *n;
  }
  r->accepted = 1;
}

/* code's notion of "timestamp set" differs from "non-zero" exactly here */
static int odd_ts(const ares_timeval_t *t) { return (t->sec != 0) != (t->usec != 0); }

/* ------------------------------------------------------------------ */
static void setup_common(void)
{
  memset(&ch, 0, sizeof(ch));
  memset(&srv, 0, sizeof(srv));
  memset(&conn, 0, sizeof(conn));
  memset(&q, 0, sizeof(q));
  srv.channel = &ch;
  conn.server = &srv;
  conn.flags  = (ares_conn_flags_t)(vp_u8() & (ARES_CONN_FLAG_TCP | ARES_CONN_FLAG_TFO | ARES_CONN_FLAG_TFO_INITIAL));
  arb_addr(&conn.self_ip);
  now = arb_tv();
  arbitrary_cookie(&srv.cookie);
  q.query   = &rec_req;
  q.channel = &ch;
  q.conn    = &conn;
}

#if OP == 0
/* The property fixes no numbers and the file documents COOKIE_UNSUPPORTED_TIMEOUT_MS for the "server without
 * cookie support" back-off while the code compares with COOKIE_REGRESSION_TIMEOUT_MS.  The oracle therefore takes
 * whichever of the two defined periods the code exhibits on ONE concrete probe (back-off started 200 s ago) as
 * "the fixed period" and then checks it for ALL timestamps. */
static ares_int64_t g_unsup_ms;
static void probe_unsup_period(void)
{
  ares_timeval_t t;
  memset(&ch, 0, sizeof(ch));
  memset(&srv, 0, sizeof(srv));
  memset(&conn, 0, sizeof(conn));
  srv.channel                   = &ch;
  conn.server                   = &srv;
  conn.self_ip.family           = AF_INET;
  srv.cookie.state              = ARES_COOKIE_UNSUPPORTED;
  srv.cookie.unsupported_ts.sec = 10;
  srv.cookie.unsupported_ts.usec = 5;
  t.sec                         = 210;
  t.usec                        = 5;
  st_req.has_opt                = 1;
  g_set_status                  = ARES_SUCCESS;
  (void)ares_cookie_apply(&rec_req, &conn, &t);
  g_unsup_ms = (srv.cookie.state == ARES_COOKIE_UNSUPPORTED) ? (ares_int64_t)COOKIE_UNSUPPORTED_TIMEOUT_MS
                                                             : (ares_int64_t)COOKIE_REGRESSION_TIMEOUT_MS;
  /* forget the probe */
  if (st_req.val != NULL)
    vp_free(st_req.val);
  memset(&st_req, 0, sizeof(st_req));
  g_rand_n = 0;
}

static void check_apply(void)
{
  ares_cookie_t pre, post, refA;
  const ares_cookie_t *ref;
  refopt_t      pre_o, oA;
  const refopt_t *ro;
  ares_status_t ret, retA, rret;
  int           is_tcp, has_opt, usedA, rused, regenerated;
  int           r_unspec, r_odd, reset_reg, reset_unsup, ip_changed, rotate;
  size_t        i;

  setup_common();
  st_req.has_opt = vp_bool();
  if (vp_bool()) { /* an option left from an earlier send of the same request, or put there by the requester */
    size_t plen = vp_range(0, 40);
    VP_ASSUME(plen == 0 || plen == 8 || plen == 24 || plen == 40); /* its content is never read, only replaced/removed */
    store_fill(&st_req, plen);
  }
  VP_ASSUME(st_req.has_opt || !st_req.has_cookie);
  g_set_status = vp_bool() ? ARES_SUCCESS : ARES_ENOMEM;

  r_unspec = conn.self_ip.family == AF_UNSPEC;
  r_odd    = odd_ts(&srv.cookie.unsupported_ts);
#ifdef KFONLY_cookie_unspec_ip
  VP_ASSUME(r_unspec);
#endif
#ifdef KFONLY_cookie_isset_and
  VP_ASSUME(r_odd);
#endif

  pre              = srv.cookie;
  pre_o.has_cookie = st_req.has_cookie;
  pre_o.len        = st_req.len;
  for (i = 0; i < 40; i++)
    pre_o.val[i] = (i < st_req.len) ? st_req.val[i] : 0;
  is_tcp  = (conn.flags & ARES_CONN_FLAG_TCP) != 0;
  has_opt = st_req.has_opt;

  ret  = ares_cookie_apply(&rec_req, &conn, &now);
  post = srv.cookie;

  /* memory/representation: inductive step */
  VP_ASSERT(inv_state(&post) && inv_cleared(&post) && inv_times(&post) && inv_ip(&post), "apply re-establishes the cookie invariant");
  VP_ASSERT(inv_server_len(&post), "apply keeps server cookie length 0 or 8..32");
  VP_ASSERT(g_rq_n == 0, "apply never requeues");

  /* reference, with the back-off period the code was measured to use (probe_unsup_period) */
  refA = pre; oA = pre_o;
  retA  = ref_apply(&refA, &oA, has_opt, is_tcp, &conn.self_ip, &now, g_unsup_ms, g_set_status);
  usedA = ref_rand_used;
#define SAME(R, O, RET, USED)                                                                                      \
  (cookie_eq(&post, &(R)) && ret == (RET) && g_rand_n == (USED) && st_req.has_cookie == (O).has_cookie &&          \
   st_req.len == (O).len && (st_req.len == 0 || bytes_eq(st_req.val, (O).val, st_req.len)))
  ref = &refA; ro = &oA; rret = retA; rused = usedA;
  if (g_unsup_ms != (ares_int64_t)COOKIE_UNSUPPORTED_TIMEOUT_MS && has_opt && !is_tcp && pre.state == ARES_COOKIE_UNSUPPORTED &&
      post.state != ARES_COOKIE_UNSUPPORTED && !ref_passed(&pre.unsupported_ts, &now, (ares_int64_t)COOKIE_UNSUPPORTED_TIMEOUT_MS))
    VP_WITNESS("NOTE unsupported back-off ended before COOKIE_UNSUPPORTED_TIMEOUT_MS (regression constant is used)");

  regenerated = g_rand_n > 0;
  /* conditions under which the statement allows a new client cookie */
  reset_reg   = pre.state == ARES_COOKIE_SUPPORTED && !tv_zero(&pre.unsupported_ts) &&
                ref_passed(&pre.unsupported_ts, &now, REF_REGRESSION_MS);
  reset_unsup = pre.state == ARES_COOKIE_UNSUPPORTED; /* back-off over: learn again (period checked by the reference) */
  ip_changed  = !ref_addr_same(&conn.self_ip, &pre.client_ip);
  rotate      = pre.state == ARES_COOKIE_SUPPORTED && ref_passed(&pre.client_ts, &now, REF_ROTATE_MS);

  if (r_unspec) {
    /* region of the suspected defect cookie_unspec_ip: only the property sentences, under their own name */
    if (!r_odd && has_opt && !is_tcp && (pre.state == ARES_COOKIE_GENERATED || pre.state == ARES_COOKIE_SUPPORTED) && !reset_reg &&
        !ip_changed && !rotate) {
      VP_ASSERT(!CHECK_unspec_ip || (!regenerated && bytes_eq(post.client, pre.client, 8) && post.server_len == pre.server_len &&
                  bytes_eq(post.server, pre.server, 32)),
                "FINDING cookie_unspec_ip: with an unknown (AF_UNSPEC) source address the client cookie stays constant "
                "and the server cookie is kept");
      VP_WITNESS("unspec self ip, steady state");
    }
    if (has_opt && is_tcp)
      VP_ASSERT(!st_req.has_cookie, "no cookie option in a request written for TCP (unknown source address)");
  } else if (r_odd) {
    VP_ASSERT(!CHECK_isset_and || SAME(*ref, *ro, rret, rused),
              "FINDING cookie_isset_and: a regression timestamp with sec==0 or usec==0 (not both) counts as set");
    if (pre.state == ARES_COOKIE_SUPPORTED && has_opt && !is_tcp)
      VP_WITNESS("odd timestamp in SUPPORTED");
  } else {
    /* ---- field by field against the reference ---- */
    VP_ASSERT(ret == rret, "apply status equals reference (success, or the option-set failure)");
    VP_ASSERT(post.state == ref->state, "apply: state equals reference");
    VP_ASSERT(g_rand_n == rused, "apply: number of client-cookie generations equals reference");
    VP_ASSERT(bytes_eq(post.client, ref->client, 8), "apply: client cookie equals reference");
    VP_ASSERT(tv_eq(&post.client_ts, &ref->client_ts), "apply: client cookie timestamp equals reference");
    VP_ASSERT(addr_identical(&post.client_ip, &ref->client_ip), "apply: remembered source address equals reference");
    VP_ASSERT(post.server_len == ref->server_len, "apply: server cookie length equals reference");
    VP_ASSERT(bytes_eq(post.server, ref->server, 32), "apply: server cookie equals reference");
    VP_ASSERT(tv_eq(&post.unsupported_ts, &ref->unsupported_ts), "apply: unsupported/regression timestamp equals reference");
    VP_ASSERT(st_req.has_cookie == ro->has_cookie, "apply: presence of the request COOKIE option equals reference");
    VP_ASSERT(st_req.len == ro->len, "apply: request COOKIE option length equals reference");
    VP_ASSERT(st_req.len == 0 || bytes_eq(st_req.val, ro->val, st_req.len), "apply: request COOKIE option bytes equal reference");

    /* ---- the property's sentences, directly ---- */
    if (!has_opt) {
      VP_ASSERT(ret == ARES_SUCCESS && cookie_eq(&post, &pre) && !regenerated && st_req.n_set == 0 && st_req.n_del == 0,
                "request without EDNS: nothing sent, nothing changed");
      VP_WITNESS("no opt");
    } else if (is_tcp) {
      VP_ASSERT(!st_req.has_cookie, "no cookie option in a request written for TCP (an existing one is removed)");
      VP_ASSERT(st_req.n_set == 0, "no cookie option is ever written for TCP");
      VP_ASSERT(cookie_eq(&post, &pre) && !regenerated, "TCP request leaves the server's cookie state alone");
      VP_ASSERT(ret == ARES_SUCCESS, "TCP request: success");
      if (pre_o.has_cookie)
        VP_WITNESS("tcp removes cookie");
    } else {
      /* UDP with EDNS */
      if (!bytes_eq(post.client, pre.client, 8) || regenerated) {
        VP_ASSERT(pre.state == ARES_COOKIE_INITIAL || reset_reg || reset_unsup || ip_changed || rotate,
                  "client cookie changes only after a state reset, a source address change or the rotation period");
        VP_ASSERT(bytes_eq(post.client, g_rand[g_rand_n - 1], 8) && tv_eq(&post.client_ts, &now) &&
                    addr_identical(&post.client_ip, &conn.self_ip),
                  "a new client cookie is random, stamped now and bound to the current source address");
        VP_ASSERT(post.server_len == 0, "a new client cookie forgets the server cookie");
        VP_ASSERT(g_rand_n == 1, "at most one new client cookie per request");
      }
      if ((pre.state == ARES_COOKIE_GENERATED || pre.state == ARES_COOKIE_SUPPORTED) && !reset_reg && !ip_changed && !rotate) {
        VP_ASSERT(!regenerated && bytes_eq(post.client, pre.client, 8) && tv_eq(&post.client_ts, &pre.client_ts),
                  "client cookie is constant per server and source address until rotated");
        VP_ASSERT(post.server_len == pre.server_len && bytes_eq(post.server, pre.server, 32), "server cookie on file is kept");
        VP_ASSERT(post.state == pre.state, "steady state is kept");
        if (pre.state == ARES_COOKIE_SUPPORTED && pre.server_len != 0)
          VP_WITNESS("echo server cookie");
      }
      if (ret == ARES_SUCCESS && st_req.has_cookie) {
        VP_ASSERT(st_req.len == 8 + post.server_len && st_req.len >= 8, "sent option = client cookie + server cookie on file");
        VP_ASSERT(bytes_eq(st_req.val, post.client, 8), "sent client part is the server's current client cookie");
        VP_ASSERT(post.server_len == 0 || bytes_eq(st_req.val + 8, post.server, post.server_len),
                  "sent server part echoes the last accepted server cookie");
        VP_ASSERT(st_req.len == 8 || (st_req.len >= 16 && st_req.len <= 40), "sent option has a legal length (8 or 16..40)");
        VP_ASSERT(post.state == ARES_COOKIE_GENERATED || post.state == ARES_COOKIE_SUPPORTED, "a cookie is sent only in GENERATED/SUPPORTED");
      }
      if (ret == ARES_SUCCESS && !st_req.has_cookie) {
        VP_ASSERT(post.state == ARES_COOKIE_UNSUPPORTED && pre.state == ARES_COOKIE_UNSUPPORTED && cookie_eq(&post, &pre),
                  "UDP+EDNS request goes without cookie only while the server is in unsupported back-off");
        VP_ASSERT(!ref_passed(&pre.unsupported_ts, &now, g_unsup_ms), "unsupported back-off does not outlast its fixed period");
        VP_WITNESS("unsupported waits");
      }
      if (pre.state == ARES_COOKIE_UNSUPPORTED && post.state != ARES_COOKIE_UNSUPPORTED) {
        VP_ASSERT(ref_passed(&pre.unsupported_ts, &now, g_unsup_ms), "cookies are retried on an unsupported server only after the fixed back-off period");
        VP_ASSERT(post.state == ARES_COOKIE_GENERATED && regenerated, "retry after back-off starts with a fresh client cookie");
        VP_WITNESS("unsupported retry");
      }
      if (pre.state == ARES_COOKIE_SUPPORTED) {
        if (reset_reg) {
          VP_ASSERT(post.state == ARES_COOKIE_GENERATED && regenerated && tv_zero(&post.unsupported_ts),
                    "after the regression period a supported server is re-learned from scratch");
          VP_WITNESS("regression reset");
        } else {
          VP_ASSERT(post.state == ARES_COOKIE_SUPPORTED && tv_eq(&post.unsupported_ts, &pre.unsupported_ts),
                    "before the regression period has passed the server stays SUPPORTED");
        }
      }
      if (pre.state == ARES_COOKIE_INITIAL && ret == ARES_SUCCESS)
        VP_WITNESS("generated from initial");
      if ((pre.state == ARES_COOKIE_GENERATED || pre.state == ARES_COOKIE_SUPPORTED) && !reset_reg && ip_changed)
        VP_WITNESS("ip changed");
      if (rotate && !reset_reg && !ip_changed)
        VP_WITNESS("rotated");
      if (ret != ARES_SUCCESS)
        VP_WITNESS("set_opt failed");
    }
  }
}
#endif

#if OP == 1
static void check_validate(void)
{
  ares_cookie_t  pre, post, ref, refl;
  refv_t         rv, rvl;
  ares_status_t  ret;
  ares_array_t  *rq_arr = NULL;
  size_t         try0, rlen = 0, reqlen = 0;
  int            tcp0, req_has_cookie, resp_has_cookie, valid, r_short, r_noserver, r_odd, same, samel, match;
  unsigned char  reqc[8], respc[41];
  size_t         i;

  setup_common();
  /* request as ares_cookie_apply() left it: no OPT / OPT without cookie / cookie of 8 or 16..40 bytes */
  st_req.has_opt = vp_bool();
  if (st_req.has_opt && vp_bool()) {
    reqlen = vp_range(8, 40);
    VP_ASSUME(reqlen == 8 || reqlen == 24 || reqlen == 40); /* only its 8-byte client part is ever read */
    store_fill(&st_req, reqlen);
  }
  /* arbitrary response */
  st_resp.has_opt = vp_bool();
#if !defined(RLEN)
  if (st_resp.has_opt && vp_bool()) {
    rlen = vp_range(0, 41);
    store_fill(&st_resp, rlen);
  }
#elif RLEN >= 0
  VP_ASSUME(st_resp.has_opt); /* response COOKIE option of exactly RLEN bytes */
  rlen = RLEN;
  store_fill(&st_resp, rlen);
#endif
  g_resp_rcode = (ares_dns_rcode_t)vp_range(0, 24);
  /* query: BADCOOKIE resend counter; once it reached the limit the query is on TCP for good (using_tcp is never reset) */
  try0 = vp_range(0, (size_t)1 << 32);
  tcp0 = vp_bool();
  VP_ASSUME(try0 < REF_RESEND_MAX || tcp0);
  q.cookie_try_count = try0;
  q.using_tcp        = tcp0 ? ARES_TRUE : ARES_FALSE;
  q.try_count        = vp_range(0, 100);

  req_has_cookie  = st_req.has_cookie;
  resp_has_cookie = st_resp.has_cookie;
  for (i = 0; i < 8; i++)
    reqc[i] = req_has_cookie ? st_req.val[i] : 0;
  for (i = 0; i < 41; i++)
    respc[i] = (resp_has_cookie && i < rlen) ? st_resp.val[i] : 0;
  match = resp_has_cookie && rlen >= 8 && bytes_eq(reqc, respc, 8);
  valid = resp_has_cookie && rlen >= 16 && rlen <= 40 && match;

  r_short    = resp_has_cookie && rlen >= 9 && rlen <= 15;
  r_noserver = resp_has_cookie && (rlen == 0 || rlen == 8);
  r_odd      = odd_ts(&srv.cookie.unsupported_ts);
#ifdef KFONLY_cookie_len_9_15
  VP_ASSUME(r_short);
#endif
#ifdef KFONLY_cookie_len_0_8
  VP_ASSUME(r_noserver);
#endif
#ifdef KFONLY_cookie_isset_and
  VP_ASSUME(r_odd);
#endif

  pre = srv.cookie;
  ret = ares_cookie_validate(&q, &rec_resp, &conn, &now, &rq_arr);
  post = srv.cookie;

  ref = pre;
  ref_validate(&ref, &rv, 0, req_has_cookie, reqc, resp_has_cookie, respc, rlen, g_resp_rcode, &now, try0, tcp0);
  refl = pre;
  ref_validate(&refl, &rvl, 1, req_has_cookie, reqc, resp_has_cookie, respc, rlen, g_resp_rcode, &now, try0, tcp0);

  VP_ASSERT(inv_state(&post) && inv_cleared(&post) && inv_times(&post) && inv_ip(&post), "validate re-establishes the cookie invariant");
  VP_ASSERT(g_rand_n == 0, "validate never generates a client cookie");
  VP_ASSERT(st_req.n_set == 0 && st_req.n_del == 0 && st_resp.n_set == 0 && st_resp.n_del == 0, "validate does not edit records");

#define VSAME(R, V)                                                                                              \
  (cookie_eq(&post, &(R)) && (ret == ARES_SUCCESS) == (V).accepted && g_rq_n == (V).requeued &&                  \
   q.cookie_try_count == (V).cookie_try_count && (q.using_tcp != ARES_FALSE) == (V).using_tcp)
  same  = VSAME(ref, rv);
  samel = VSAME(refl, rvl);
  if (r_noserver && samel && !same) { /* the code implements the lenient reading: compare with it below */
    ref = refl;
    rv  = rvl;
  }

  if (r_short) {
    VP_ASSERT(!CHECK_len_9_15 || (inv_server_len(&post) && same),
              "FINDING cookie_len_9_15: a response COOKIE option of 9..15 bytes (server part 1..7 bytes, RFC 7873 s.4 "
              "allows 8..32) is dropped and never stored as server cookie");
    VP_WITNESS("short server cookie");
  } else if (r_odd) {
    VP_ASSERT(!CHECK_isset_and || (inv_server_len(&post) && (same || (r_noserver && samel))),
              "FINDING cookie_isset_and: a regression timestamp with sec==0 or usec==0 (not both) counts as set");
    if (pre.state == ARES_COOKIE_SUPPORTED && req_has_cookie && !resp_has_cookie && g_resp_rcode != ARES_RCODE_BADCOOKIE)
      VP_WITNESS("odd timestamp in SUPPORTED");
  } else {
    VP_ASSERT(inv_server_len(&post), "validate keeps server cookie length 0 or 8..32");
    /* ---- field by field against the reference ---- */
    VP_ASSERT((ret == ARES_SUCCESS) == rv.accepted, "validate: accept/drop decision equals reference");
    VP_ASSERT(post.state == ref.state, "validate: state equals reference");
    VP_ASSERT(bytes_eq(post.client, ref.client, 8), "validate: client cookie equals reference");
    VP_ASSERT(tv_eq(&post.client_ts, &ref.client_ts), "validate: client cookie timestamp equals reference");
    VP_ASSERT(addr_identical(&post.client_ip, &ref.client_ip), "validate: remembered source address equals reference");
    VP_ASSERT(post.server_len == ref.server_len, "validate: server cookie length equals reference");
    VP_ASSERT(bytes_eq(post.server, ref.server, 32), "validate: server cookie equals reference");
    VP_ASSERT(tv_eq(&post.unsupported_ts, &ref.unsupported_ts), "validate: unsupported/regression timestamp equals reference");
    VP_ASSERT(g_rq_n == rv.requeued, "validate: requeue decision equals reference");
    VP_ASSERT(q.cookie_try_count == rv.cookie_try_count, "validate: BADCOOKIE resend counter equals reference");
    VP_ASSERT((q.using_tcp != ARES_FALSE) == rv.using_tcp, "validate: TCP fallback flag equals reference");

    if (r_noserver) {
      VP_ASSERT(!CHECK_len_0_8 || same,
                "FINDING cookie_len_0_8: a response COOKIE option without server part (length 0 or 8; RFC 7873 s.5.3 / plan "
                "9.1: valid lengths are 16..40) is dropped as malformed, not treated as a cookie-less response");
      VP_WITNESS("cookie without server part");
    }

    /* ---- the property's sentences, directly ---- */
    if (resp_has_cookie && rlen != 0 && rlen != 8 && (rlen < 16 || rlen > 40)) {
      VP_ASSERT(ret != ARES_SUCCESS && cookie_eq(&post, &pre) && g_rq_n == 0, "malformed COOKIE length: response dropped, nothing learned");
      VP_WITNESS("malformed dropped");
    }
    if (!req_has_cookie) {
      VP_ASSERT(cookie_eq(&post, &pre) && g_rq_n == 0 && q.cookie_try_count == try0, "request carried no cookie: cookie state untouched");
      if (ret == ARES_SUCCESS)
        VP_WITNESS("no request cookie");
    }
    if (req_has_cookie && resp_has_cookie && rlen >= 8 && !match) {
      VP_ASSERT(ret != ARES_SUCCESS && cookie_eq(&post, &pre) && g_rq_n == 0 && q.cookie_try_count == try0,
                "wrong client cookie in the response: dropped, nothing learned, no resend");
      if (rlen >= 16 && rlen <= 40)
        VP_WITNESS("spoof dropped");
    }
    if (req_has_cookie && pre.state == ARES_COOKIE_SUPPORTED && !valid) {
      VP_ASSERT(ret != ARES_SUCCESS, "server has proven cookie support: a response without a valid cookie is ignored");
      VP_ASSERT(post.state == ARES_COOKIE_SUPPORTED, "a cookie-less/invalid response alone never ends SUPPORTED (only the regression period does)");
      VP_ASSERT(post.server_len == pre.server_len && bytes_eq(post.server, pre.server, 32) && bytes_eq(post.client, pre.client, 8),
                "an ignored response does not change the cookies on file");
      if (!resp_has_cookie && g_resp_rcode != ARES_RCODE_BADCOOKIE) {
        VP_ASSERT(tv_eq(&post.unsupported_ts, tv_zero(&pre.unsupported_ts) ? &now : &pre.unsupported_ts),
                  "the regression period starts at the first missing cookie and is not restarted by later ones");
        VP_WITNESS("supported cookieless dropped");
      }
    }
    if (req_has_cookie && valid) {
      VP_ASSERT(post.state == ARES_COOKIE_SUPPORTED && tv_zero(&post.unsupported_ts), "a valid server cookie proves support and ends regression tracking");
      if (bytes_eq(pre.client, reqc, 8)) {
        VP_ASSERT(post.server_len == rlen - 8 && bytes_eq(post.server, respc + 8, rlen - 8), "the latest valid server cookie is stored for echoing");
        VP_WITNESS("server cookie learned");
      } else {
        VP_ASSERT(post.server_len == pre.server_len && bytes_eq(post.server, pre.server, 32),
                  "a server cookie for a rotated-away client cookie is not stored");
        VP_WITNESS("server cookie not saved (client rotated)");
      }
      VP_ASSERT((ret == ARES_SUCCESS) == (g_resp_rcode != ARES_RCODE_BADCOOKIE), "a response with a valid cookie is accepted unless it says BADCOOKIE");
    }
    if (g_resp_rcode == ARES_RCODE_BADCOOKIE && req_has_cookie) {
      VP_ASSERT(ret != ARES_SUCCESS, "a BADCOOKIE response is never delivered");
      if (valid || (resp_has_cookie && match && rlen == 8 && g_rq_n != 0)) {
        VP_ASSERT(g_rq_n == 1, "BADCOOKIE with our client cookie: resend requested exactly once");
        VP_ASSERT(g_rq_inc == ARES_FALSE, "BADCOOKIE resend does not consume the normal retry budget");
        VP_ASSERT(g_rq_query == &q && g_rq_arr == &rq_arr && g_rq_dnsrec == NULL && g_rq_status == ARES_SUCCESS && tv_eq(&g_rq_now, &now),
                  "BADCOOKIE resend is requested for this query, on the caller's requeue list");
        VP_ASSERT(q.cookie_try_count == try0 + 1, "BADCOOKIE increments the cookie resend counter");
        VP_ASSERT(q.cookie_try_count < REF_RESEND_MAX || q.using_tcp, "after three BADCOOKIE replies the query falls back to TCP");
        VP_ASSERT(q.using_tcp || !tcp0, "TCP fallback is never undone");
        VP_ASSERT(q.using_tcp == (ares_bool_t)(tcp0 || try0 + 1 >= REF_RESEND_MAX), "TCP fallback only at the resend limit");
        if (q.using_tcp && !tcp0)
          VP_WITNESS("badcookie -> tcp");
        if (!q.using_tcp)
          VP_WITNESS("badcookie requeue");
      }
      if (!resp_has_cookie) {
        VP_ASSERT(g_rq_n == 0 && q.cookie_try_count == try0 && cookie_eq(&post, &pre), "BADCOOKIE without a cookie is a spoof: dropped, no resend");
        VP_WITNESS("badcookie w/o cookie dropped");
      }
    } else {
      VP_ASSERT(g_rq_n == 0 && q.cookie_try_count == try0 && (q.using_tcp != ARES_FALSE) == tcp0, "no resend without BADCOOKIE");
    }
    if (req_has_cookie && !resp_has_cookie && g_resp_rcode != ARES_RCODE_BADCOOKIE) {
      if (pre.state == ARES_COOKIE_GENERATED) {
        VP_ASSERT(ret == ARES_SUCCESS && post.state == ARES_COOKIE_UNSUPPORTED && tv_eq(&post.unsupported_ts, &now) &&
                    post.server_len == 0,
                  "a server that never returned a cookie becomes UNSUPPORTED and its response is accepted");
        VP_WITNESS("generated -> unsupported");
      }
      if (pre.state == ARES_COOKIE_UNSUPPORTED || pre.state == ARES_COOKIE_INITIAL) {
        VP_ASSERT(ret == ARES_SUCCESS && cookie_eq(&post, &pre), "an unsupported server is used without cookies");
        VP_WITNESS("unsupported accepted");
      }
    }
  }
}
#endif

void harness(void)
{
#if OP == 0
  probe_unsup_period();
  check_apply();
#else
  check_validate();
#endif
  VP_WITNESS("end");
}
