/* C20 (A): read_answers() delivers exactly the complete length-prefixed frames present in the input buffer,
 * whole, in order, once, and leaves the cursor at the first incomplete frame - for ARBITRARY buffer contents.
 * Together with (B) (read_conn_packets appends exactly what the transport returned) this gives, by induction
 * over read events, independence from the chopping of the stream. */
#include "c20_common.h"
#define MAXN 12

void harness(void)
{
  static ares_channel_t ch;
  ares_server_t        *srv;
  ares_conn_t          *conn;
  ares_timeval_t        now;
  size_t                n, o, pos, i;
  int                   e;
  unsigned char         B[CAP];
  ares_status_t         st;

  vp_alloc_install();
  world_init(&ch);
  ch.flags = ARES_FLAG_STAYOPEN;
  srv      = world_add_server(&ch, 0, 0);
  conn     = world_add_conn(&ch, srv, TCP);
  now.sec  = 100;
  now.usec = 0;
  ares_free(conn->in_buf->alloc_buf);
  arbitrary_buf(conn->in_buf, MAXN, &n, &o);
  rec_base = conn->in_buf->alloc_buf;
  for (i = 0; i < CAP; i++)
    B[i] = conn->in_buf->alloc_buf[i];

  st = read_answers(conn, &now);
  VP_ASSERT(st != ARES_ENOMEM, "framing allocates nothing when no request needs resending");

  /* reference walk over the frames */
  pos = o;
  e   = 0;
  for (i = 0; i < MAXN / 2 + 1; i++) {
    size_t L;
    if (pos + 2 > n) break;
    L = ((size_t)B[pos] << 8) | B[pos + 1];
    if (pos + 2 + L > n) break;
    if (L > 0) {
      VP_ASSERT(e < nrec, "every complete frame is delivered");
      VP_ASSERT(rec_off[e] == pos + 2 && rec_len[e] == L, "frame delivered whole, in order, with the prefix stripped");
      e++;
    }
    pos += 2 + L;
  }
  VP_ASSERT(nrec == e, "nothing delivered twice, no partial frame delivered");
  VP_ASSERT(conn->in_buf->offset == pos, "cursor rests at the first incomplete frame");
  VP_ASSERT(conn->in_buf->data_len == n, "unconsumed bytes are kept");
  VP_ASSERT(conn->in_buf->tag_offset == SIZE_MAX, "no stale tag blocks later reclaim");
  for (i = 0; i < CAP; i++)
    VP_ASSERT(conn->in_buf->alloc_buf[i] == B[i], "buffer bytes untouched by framing");
  if (e >= 2) VP_WITNESS("two frames delivered");
  if (pos < n) VP_WITNESS("incomplete tail kept");
  VP_WITNESS("end");
}
