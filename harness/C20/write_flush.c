/* C20 outbound: ares_conn_flush() hands the transport exactly the queued bytes, in order, never a byte twice:
 * TCP: the rest of the length-prefixed stream, cursor advanced by what the socket accepted (ANY 1..len), write
 * interest announced iff bytes remain; UDP: one datagram per queued frame, prefix stripped, all-or-nothing.
 * Pre-state: ARBITRARY output buffer holding 0..2 queued frames (lengths 0..3, bytes symbolic); for TCP the cursor
 * may be anywhere inside the first frame (an earlier partial write).
 * Real: ares_conn_flush, ares_conn_write, ares_conn_sock_state_cb_update (ares_conn.c), ares_socket_write
 * (ares_socket.c), ares_buf tag/fetch/peek/consume (ares_buf.c). */
#include "c20_common.h"
#define MAXMSG 3
#define NSEND 3

static unsigned char sent[NSEND][CAP];
static size_t        sent_len[NSEND];      /* what the library offered */
static size_t        accepted[NSEND];      /* what the socket took */
static int           send_kind[NSEND];     /* 0 accept, 1 would-block, 2 hard error */
static int           nsend;

static ares_ssize_t send_script(ares_socket_t s, const void *buf, size_t len)
{
  int    k = nsend;
  size_t i;
  (void)s;
  VP_BOUND(k < NSEND, "more send calls than recorder slots");
  nsend++;
  VP_ASSERT(len <= CAP, "never offers more than is queued");
  sent_len[k] = len;
  for (i = 0; i < len && i < CAP; i++)
    sent[k][i] = ((const unsigned char *)buf)[i];
  if (send_kind[k] == 1) { errno = EWOULDBLOCK; return -1; }
  if (send_kind[k] == 2) { errno = ECONNRESET; return -1; }
#if TCP
  accepted[k] = vp_range(1, len);
#else
  accepted[k] = len; /* datagram: all or nothing */
  VP_ASSUME(len > 0);
#endif
  return (ares_ssize_t)accepted[k];
}

void harness(void)
{
  static ares_channel_t ch;
  ares_server_t        *srv;
  ares_conn_t          *conn;
  ares_buf_t           *ob;
  size_t                l1, l2, nframes, n, o, i, p;
  unsigned char         S[CAP];
  ares_status_t         st;
  ares_socket_t         fd;
  int                   k;

  vp_alloc_install();
  world_init(&ch);
  ch.flags = ARES_FLAG_STAYOPEN;
  srv      = world_add_server(&ch, 0, 0);
  conn     = world_add_conn(&ch, srv, TCP);
  fd       = conn->fd;
  ob       = conn->out_buf;

  /* queued stream: nframes frames */
  nframes = vp_range(0, 2);
  l1      = vp_range(UDPMIN, MAXMSG);
  l2      = vp_range(UDPMIN, MAXMSG);
  ob->alloc_buf     = vp_malloc(CAP);
  ob->alloc_buf_len = CAP;
  ob->data          = ob->alloc_buf;
  ob->tag_offset    = SIZE_MAX;
  vp_bytes(ob->alloc_buf, CAP);
  p = 0;
  if (nframes >= 1) { ob->alloc_buf[p] = 0; ob->alloc_buf[p + 1] = (unsigned char)l1; p += 2 + l1; }
  if (nframes >= 2) { ob->alloc_buf[p] = 0; ob->alloc_buf[p + 1] = (unsigned char)l2; p += 2 + l2; }
  n = p;
#if TCP
  o = vp_range(0, CAP);
  VP_ASSUME(o <= n && (nframes == 0 ? o == 0 : o < 2 + l1 || n == o));
#else
  o = 0;
#endif
  ob->data_len = n;
  ob->offset   = o;
  for (i = 0; i < CAP; i++) S[i] = ob->alloc_buf[i];
  for (k = 0; k < NSEND; k++) send_kind[k] = (int)vp_range(0, 2);
  vsock_send_script = send_script;

  st = ares_conn_flush(conn);

#if TCP
  if (o == n) {
    VP_ASSERT(nsend == 0 && st == ARES_SUCCESS, "nothing queued: nothing sent");
  } else {
    VP_ASSERT(nsend == 1, "TCP: one write per flush");
    VP_ASSERT(sent_len[0] == n - o, "TCP offers the whole remaining stream");
    for (i = 0; i < n - o && i < CAP; i++)
      VP_ASSERT(sent[0][i] == S[o + i], "TCP bytes offered are exactly the queued bytes from the cursor on");
    if (send_kind[0] == 0) {
      VP_ASSERT(st == ARES_SUCCESS, "accepted write is success");
      VP_ASSERT(ob->offset == o + accepted[0] && ob->data_len == n, "cursor advances by exactly what the socket accepted");
      VP_ASSERT(((conn->state_flags & ARES_CONN_STATE_WRITE) != 0) == (ob->offset < ob->data_len),
                "write interest wanted iff bytes remain queued");
      if (ob->offset < ob->data_len) {
        VP_ASSERT(vsock[fd].last_w == 1 && vsock[fd].told_watch, "application told to watch for writability after a partial write");
        VP_WITNESS("partial write");
      } else {
        VP_ASSERT(vsock[fd].last_w == 0, "write interest dropped once everything is sent");
      }
    } else if (send_kind[0] == 1) {
      VP_ASSERT(st == ARES_SUCCESS && ob->offset == o, "would-block keeps everything queued");
      VP_ASSERT(vsock[fd].last_w == 1, "application told to watch for writability on would-block");
    } else {
      VP_ASSERT(st != ARES_SUCCESS && ob->offset == o, "hard error reported, nothing consumed");
    }
  }
#else
  {
    size_t exp_off = 0, lens[2];
    int    done = 0, stop = 0;
    lens[0] = l1; lens[1] = l2;
    for (k = 0; k < 2; k++) {
      if ((size_t)k >= nframes || stop) break;
      VP_ASSERT(nsend > k, "one datagram per queued frame");
      VP_ASSERT(sent_len[k] == lens[k], "datagram carries the payload without the 2-byte prefix");
      for (i = 0; i < lens[k]; i++)
        VP_ASSERT(sent[k][i] == S[exp_off + 2 + i], "datagram bytes are the frame's payload");
      if (send_kind[k] == 0) { exp_off += 2 + lens[k]; done++; }
      else stop = 1 + send_kind[k];
    }
    VP_ASSERT(nsend == done + (stop ? 1 : 0), "no datagram sent twice, none skipped");
    VP_ASSERT(ob->offset == exp_off, "exactly the accepted frames are dequeued");
    if (stop == 3) VP_ASSERT(st != ARES_SUCCESS, "hard error reported");
    else VP_ASSERT(st == ARES_SUCCESS, "accepted / would-block is success");
    if (done == 2) VP_WITNESS("two datagrams");
  }
#endif
  VP_WITNESS("end");
}
