/* shared by the C20 harnesses: real ares_process.c + ares_buf.c statics, recorder at the parser boundary,
 * world with one server / one connection whose buffers are put in an ARBITRARY valid state. */
#include "vp.h"
#include "str/ares_buf.c"
#include "ares_process.c"
#include "world.h"
#include "dnsrec_abs.h"
#include <errno.h>

#define CAP 32  /* allocation size of the pre-built buffers (what ares_buf_ensure_space allocates first) */
#define MAXREC 8

static size_t rec_off[MAXREC]; /* where in the buffer the parser was pointed */
static size_t rec_len[MAXREC];
static int    nrec;
static const unsigned char *rec_base;

ares_status_t ares_dns_parse(const unsigned char *buf, size_t buf_len, unsigned int flags, ares_dns_record_t **dnsrec)
{
  (void)flags;
  VP_BOUND(nrec < MAXREC, "more parser calls than recorder slots");
  rec_off[nrec] = (size_t)(buf - rec_base);
  rec_len[nrec] = buf_len;
  nrec++;
  *dnsrec = vp_absrec_new(999); /* matches no query: dropped right after parsing */
  return ARES_SUCCESS;
}
ares_status_t ares_cookie_validate(ares_query_t *q, const ares_dns_record_t *r, ares_conn_t *c, const ares_timeval_t *n,
                                   ares_array_t **rq) { (void)q;(void)r;(void)c;(void)n;(void)rq; return ARES_SUCCESS; }
ares_status_t ares_cookie_apply(ares_dns_record_t *r, ares_conn_t *c, const ares_timeval_t *n) { (void)r;(void)c;(void)n; return ARES_SUCCESS; }
ares_status_t ares_qcache_insert(ares_channel_t *ch, const ares_timeval_t *now, const ares_query_t *q, ares_dns_record_t *r)
{ (void)ch;(void)now;(void)q;(void)r; return ARES_ENOTFOUND; }
void ares_metrics_record(const ares_query_t *q, ares_server_t *s, ares_status_t st, const ares_dns_record_t *r) { (void)q;(void)s;(void)st;(void)r; }
void ares_tvnow(ares_timeval_t *now) { now->sec = 100; now->usec = 0; }

/* put an allocated ares_buf into an arbitrary valid state: CAP bytes allocated, n bytes of data, cursor at o */
static void arbitrary_buf(ares_buf_t *b, size_t maxn, size_t *n_out, size_t *o_out)
{
#ifdef N0
  size_t n = N0, o = O0; /* fill level / cursor concrete for this job (contents stay symbolic) */
  (void)maxn;
#else
  size_t n = vp_range(0, maxn), o = vp_range(0, maxn);
  VP_ASSUME(o <= n);
#endif
  b->alloc_buf     = vp_malloc(CAP);
  b->alloc_buf_len = CAP;
  b->data          = b->alloc_buf;
  b->data_len      = n;
  b->offset        = o;
  b->tag_offset    = SIZE_MAX;
  vp_bytes(b->alloc_buf, CAP);
  *n_out = n;
  *o_out = o;
}
