OUTSIDE = ("input buffers holding more than 8-12 bytes, chunks/datagrams longer than 5 bytes, more than 2 datagrams per read event; "
           "the 65535-byte read window is replaced by 16 through the guarded hook CARES_VERIF_READ_WINDOW (same code path, "
           "smaller allocation); message CONTENT is not interpreted (the parser stub is the recorder); the composition "
           "(A) framing + (B) append => chopping independence is an induction argument written in DESIGN.md, not a solver query")
ASSUMPTIONS = ["virtual socket layer harness/stubs/vsock.c behind channel->sock_funcs", "reference containers slist_ref / "
               "szvp_ref / asvp_ref", "ares_dns_parse replaced by a recorder returning an unmatched record",
               "cookie/qcache/metrics neighbours stubbed (not reached: no live query)",
               "pre-state buffers: 32 bytes allocated, arbitrary fill/cursor, tag unset (what read_answers leaves behind)"]
LIB = ["src/lib/ares_library_init.c", "src/lib/dsa/ares_llist.c", "src/lib/dsa/ares_array.c",
       "src/lib/str/ares_str.c", "src/lib/util/ares_math.c", "src/lib/ares_conn.c", "src/lib/ares_socket.c",
       "src/lib/ares_close_sockets.c"]
SUP = ["vp_rt.c", "valloc.c", "memloops.c", "slist_ref.c", "szvp_ref.c", "asvp_ref.c", "lock_ghost.c", "dnsrec_abs.c",
       "vsock.c", "world.c"]
DEF = ["-DCARES_VERIF_READ_WINDOW=16", "-DVP_REALLOC_SIZES=32,64", "-DVP_REALLOC_ARRAYCOPY"]

import os, sys
sys.path.insert(0, os.path.join(os.path.dirname(os.path.abspath(__file__)), "..", "machine"))
import mjobs

def jobs(tier, seed):
    J = []
    J.append(dict(name="read_frames", harness="read_frames.c", defines=DEF + ["-DTCP=1"], real=LIB, support=SUP, unwind=34,
                  fs_array=8, witnesses=["end", "two frames delivered", "incomplete tail kept"],
                  bound="read_answers on an ARBITRARY input buffer: 0..12 bytes of arbitrary content, cursor anywhere"))
    def app(tcp, nd, maxn, maxc, n0=None, o0=None):
        d = DEF + ["-DTCP=%d" % tcp, "-DNDGRAM=%d" % nd, "-DMAXN=%d" % maxn, "-DMAXCHUNK=%d" % maxc]
        nm = "read_append_%s%d_n%d_c%d" % ("tcp" if tcp else "udp", nd, maxn, maxc)
        pre = "0..%d bytes, cursor anywhere" % maxn
        if n0 is not None:
            d += ["-DN0=%d" % n0, "-DO0=%d" % o0]
            nm = "read_append_%s%d_fill%d_cur%d_c%d" % ("tcp" if tcp else "udp", nd, n0, o0, maxc)
            pre = "%d bytes with the cursor at %d" % (n0, o0)
        J.append(dict(name=nm, harness="read_append.c", defines=d, mem_gb=20, backend="cadical",
                      timeout=300 if tier == "quick" else 1800, real=LIB, support=SUP, unwind=34, fs_array=8,
                      witnesses=["end", "closed on error"] + (["tcp chunk appended"] if tcp else
                                                               ["zero-length datagram", "all datagrams in one event"]),
                      bound="read_conn_packets from an input buffer holding %s (arbitrary content); chunk/datagram <= %d bytes; %s"
                            % (pre, maxc, "TCP: one chunk / would-block / reset / orderly close" if tcp else
                               "UDP: up to %d datagrams (length 0 included) from the server or another address / would-block / error" % nd)))
    app(1, 1, 8, 5)
    # UDP does five buffer operations per datagram; with a symbolic fill level the SAT query does not finish
    # (measured: > 760 s), so fill level and cursor are enumerated and contents/lengths stay symbolic
    top = 3 if tier == "quick" else 5
    for n0 in range(0, top + 1):
        for o0 in range(0, n0 + 1):
            app(0, 1, top, 3, n0, o0)
    if tier != "quick":
        app(0, 2, 3, 2, 2, 1)
        app(0, 1, 8, 5)
    for tcp in (1, 0):
        J.append(dict(name="write_flush_%s" % ("tcp" if tcp else "udp"), harness="write_flush.c",
                      defines=DEF + ["-DTCP=%d" % tcp, "-DUDPMIN=%d" % (0 if tcp else 1)], real=LIB, support=SUP, unwind=34,
                      fs_array=8, witnesses=["end", "partial write" if tcp else "two datagrams"],
                      bound="ares_conn_flush from an ARBITRARY output buffer: 0..2 queued frames, payload %s bytes symbolic, %s"
                            % ("0..3" if tcp else "1..3", "cursor anywhere in the first frame; socket accepts ANY 1..len, "
                               "would-block or reset" if tcp else "datagram all-or-nothing, would-block or reset")))
    # the truncation rule (TC on UDP => retried over TCP unless IGNTC) lives in process_answer: same jobs as C05
    J += mjobs.answer_jobs(tier, owner=False)
    J += mjobs.write_event_jobs(tier)
    # what is queued behind an earlier frame: ares_dns_write_buf_tcp() appends exactly prefix + message, and leaves the
    # queue exactly as it was when serialisation fails half-way (a stray prefix would be sent as an empty frame).
    # Same harness as C03's framing obligation, run here so that this check is self-contained.
    import importlib.util
    p03 = os.path.join(os.path.dirname(os.path.abspath(__file__)), "..", "C03", "jobs.py")
    spec = importlib.util.spec_from_file_location("jobs_C03_reuse20", p03)
    m03 = importlib.util.module_from_spec(spec); spec.loader.exec_module(m03)
    for j in m03.jobs(tier, 0):
        if j["name"].startswith("framing_placement_fail") or j["name"] in ("framing_placement_CNAME_P5", "framing_placement_SOA_P5"):
            j = dict(j); j["harness"] = "../C03/" + j["harness"]
            j["support"] = [("../C03/" + x if x == "c03_mem.c" else x) for x in j.get("support", [])]
            J.append(j)
    return J
