/* C20 (B): read_conn_packets() appends exactly what the transport returned to the connection input buffer:
 * TCP: the chunk (any size >= 1) after the existing bytes; UDP: per datagram a synthetic 2-byte length prefix +
 * the payload (zero-length datagrams included), datagrams from another source address leave the buffer as it was.
 * Would-block changes nothing; a hard error closes the connection.  Pre-state: ARBITRARY valid input buffer. */
#include "c20_common.h"
#ifndef MAXN
#  define MAXN 8
#endif
#ifndef MAXCHUNK
#  define MAXCHUNK 5
#endif
#ifndef NDGRAM
#  define NDGRAM 2
#endif

static unsigned char chunk[NDGRAM][MAXCHUNK];
static size_t        chunk_len[NDGRAM];
static int           chunk_kind[NDGRAM]; /* 0 data from server, 1 would-block, 2 hard error, 3 (TCP) orderly close, 4 (UDP) other source */
static int           calls;
static unsigned int  server_ip;

static ares_ssize_t recv_script(ares_socket_t s, void *buf, size_t len, struct sockaddr *from, ares_socklen_t *fromlen)
{
  int    k = calls;
  size_t i;
  (void)s;
  calls++;
  if (k >= NDGRAM) {
    errno = EWOULDBLOCK;
    return -1;
  }
  if (chunk_kind[k] == 1) { errno = EWOULDBLOCK; return -1; }
  if (chunk_kind[k] == 2) { errno = ECONNRESET; return -1; }
#if TCP
  if (chunk_kind[k] == 3) return 0;
#endif
  VP_ASSERT(chunk_len[k] <= len, "read window large enough");
  for (i = 0; i < chunk_len[k]; i++)
    ((unsigned char *)buf)[i] = chunk[k][i];
#if !TCP
  {
    struct sockaddr_in *sin = (struct sockaddr_in *)(void *)from;
    VP_ASSERT(from != NULL && *fromlen >= (ares_socklen_t)sizeof(*sin), "UDP read asks for the source address");
    sin->sin_family      = AF_INET;
    sin->sin_port        = 0;
    sin->sin_addr.s_addr = (chunk_kind[k] == 4) ? server_ip + 1 : server_ip;
    *fromlen             = sizeof(*sin);
  }
#else
  (void)from; (void)fromlen;
#endif
  return (ares_ssize_t)chunk_len[k];
}

void harness(void)
{
  static ares_channel_t ch;
  ares_server_t        *srv;
  ares_conn_t          *conn;
  size_t                n, o, i, exp_n;
  int                   k;
  unsigned char         B[CAP], E[CAP];
  ares_status_t         st;
  ares_socket_t         fd;
  ares_buf_t           *ib;
  int                   closed_expected = 0;

  vp_alloc_install();
  world_init(&ch);
  ch.flags  = ARES_FLAG_STAYOPEN;
  srv       = world_add_server(&ch, 0, 0);
  conn      = world_add_conn(&ch, srv, TCP);
  fd        = conn->fd;
  server_ip = srv->addr.addr.addr4.s_addr;
  ares_free(conn->in_buf->alloc_buf);
  arbitrary_buf(conn->in_buf, MAXN, &n, &o);
  ib = conn->in_buf;
  for (i = 0; i < CAP; i++)
    B[i] = E[i] = ib->alloc_buf[i];
  for (k = 0; k < NDGRAM; k++) {
    chunk_kind[k] = (int)vp_range(0, 4);
#if TCP
    VP_ASSUME(chunk_kind[k] != 4);
    chunk_len[k] = vp_range(1, MAXCHUNK);
#else
    VP_ASSUME(chunk_kind[k] != 3);
    chunk_len[k] = vp_range(0, MAXCHUNK);
#endif
    vp_bytes(chunk[k], MAXCHUNK);
  }
  vsock_recv_script = recv_script;

  st = read_conn_packets(conn);

  /* expected logical content: bytes [o, exp_n) of E */
  exp_n = n;
#if TCP
  /* one read per event (the loop repeats only when the whole window was filled) */
  if (chunk_kind[0] == 0) {
    for (i = 0; i < chunk_len[0]; i++) E[exp_n + i] = chunk[0][i];
    exp_n += chunk_len[0];
    VP_WITNESS("tcp chunk appended");
  } else if (chunk_kind[0] != 1) {
    closed_expected = 1;
  }
#else
  for (k = 0; k < NDGRAM; k++) {
    if (chunk_kind[k] == 0) {
      E[exp_n]     = 0;
      E[exp_n + 1] = (unsigned char)chunk_len[k];
      for (i = 0; i < chunk_len[k]; i++) E[exp_n + 2 + i] = chunk[k][i];
      exp_n += 2 + chunk_len[k];
      if (chunk_len[k] == 0) VP_WITNESS("zero-length datagram");
      if (k == NDGRAM - 1) VP_WITNESS("all datagrams in one event");
      continue;
    }
    if (chunk_kind[k] == 2) closed_expected = 1;
    break; /* would-block, other source, error: the read loop ends */
  }
#endif
  if (closed_expected) {
    VP_ASSERT(st != ARES_SUCCESS, "a hard receive error is reported");
    VP_ASSERT(vsock[fd].state == 2, "a hard receive error closes the connection");
    VP_WITNESS("closed on error");
  } else {
    size_t base;
    VP_ASSERT(st == ARES_SUCCESS, "data / would-block / foreign datagram are not errors");
    VP_ASSERT(vsock[fd].state == 1, "connection stays open");
    /* reclaim may have shifted the consumed prefix away: compare the logical content */
    VP_ASSERT(ib->offset <= o && ib->data_len - ib->offset == exp_n - o, "exactly the received bytes were appended");
    base = ib->offset;
    for (i = 0; i + o < exp_n && i < CAP; i++)
      VP_ASSERT(ib->data[base + i] == E[o + i], "buffer content = previous unconsumed bytes followed by what the transport returned");
    VP_ASSERT(ib->data_len < ib->alloc_buf_len, "NUL reserve kept");
  }
  (void)B;
  VP_WITNESS("end");
}
