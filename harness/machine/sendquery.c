/* One ares_send_query() of a fresh or retried request on a channel in an ARBITRARY valid state:
 * 1..2 servers with symbolic failure counters, 0..1 existing connection to the best server (UDP with symbolic
 * use count, or TCP) carrying 0..1 sibling request; every socket / cookie / serialisation failure possible;
 * sibling callbacks may re-enter ares_cancel().
 * Serves C01 (exactly-once, no use after release), C06 (transmission budget), C09 (server choice),
 * C10 (descriptor protocol, udp_max_queries), C07 (deadline registered). */
#include "machine.h"

#ifndef NSRV
#  define NSRV 2
#endif

void harness(void)
{
  ares_server_t *srv[2] = { NULL, NULL };
  ares_conn_t   *old    = NULL;
  ares_query_t  *q, *sib = NULL;
  size_t         f0, f1 = 0, minf, i, writes0, tries0, budget;
  ares_status_t  st;
  int            tok, sibtok = -1, existing, rotate;
  ares_server_t *best_first;
  ares_socket_t  oldfd = -1;
  size_t         old_total = 0;

  M_init();
  M_ch.flags           = ARES_FLAG_STAYOPEN | (vp_bool() ? ARES_FLAG_USEVC : 0);
  M_ch.tries           = vp_range(1, 2);
  M_ch.udp_max_queries = vp_range(0, 2);
  rotate               = vp_bool();
  M_ch.rotate          = rotate ? ARES_TRUE : ARES_FALSE;
  M_ch.server_retry_chance = 0; /* probes are exercised by the probe harness */
  M_reenter_cancel     = 1;
  f0 = vp_range(0, 2);
  srv[0] = world_add_server(&M_ch, 0, f0);
#if NSRV == 2
  f1 = vp_range(0, 2);
  srv[1] = world_add_server(&M_ch, 1, f1);
#endif
  /* reference: fewest failures, first in configuration order */
  minf       = (NSRV == 2 && f1 < f0) ? f1 : f0;
  best_first = (NSRV == 2 && f1 < f0) ? srv[1] : srv[0];

  existing = (int)vp_range(0, 2); /* 0 none, 1 UDP, 2 TCP: on the best server */
  if (existing) {
    old       = world_add_conn(&M_ch, best_first, existing == 2);
    oldfd     = old->fd;
    if (existing == 1) old->total_queries = vp_range(0, 3);
    if (vp_bool()) { /* a sibling request in flight on it */
      sib    = M_new_query();
      sibtok = M_ntok - 1;
      M_attach(sib, old, 1005);
      sib->try_count = vp_range(0, 1);
    }
    old_total = old->total_queries;
  }
  q              = M_new_query();
  tok            = M_ntok - 1;
  q->using_tcp   = (M_ch.flags & ARES_FLAG_USEVC) ? ARES_TRUE : ARES_FALSE;
  q->try_count   = vp_range(0, NSRV * 2);
  q->no_retries  = vp_bool() ? ARES_TRUE : ARES_FALSE;
  VP_ASSUME(q->try_count < NSRV * M_ch.tries); /* ares_requeue_query's budget check let it through */
  tries0  = q->try_count;
  budget  = NSRV * M_ch.tries;
  writes0 = M_writes;

  st = ares_send_query(NULL, q, &M_now);

  /* ---- C01: exactly once, nothing used after release (pointer checks), links consistent ---- */
  M_check_links();
  if (M_cb_count[tok] == 0) {
    VP_ASSERT(st == ARES_SUCCESS, "a request that is still live was sent successfully");
    VP_ASSERT(ares_htable_szvp_get_direct(M_ch.queries_by_qid, (size_t)(100 + tok)) == q, "live request still indexed");
    VP_ASSERT(q->conn != NULL && q->node_queries_by_timeout != NULL, "a live request is in flight with a deadline registered");
    /* C07: its deadline is now + timeout >= base timeout */
    VP_ASSERT(ares_timedout(&M_now, &q->timeout) == ARES_FALSE, "fresh deadline lies in the future");
    /* C10: never on a UDP connection that already carried udp_max_queries */
    if (!(q->conn->flags & ARES_CONN_FLAG_TCP) && M_ch.udp_max_queries > 0)
      VP_ASSERT(q->conn->total_queries <= M_ch.udp_max_queries, "a UDP socket never carries more than udp_max_queries requests");
    VP_ASSERT(((q->conn->flags & ARES_CONN_FLAG_TCP) != 0) == (q->using_tcp == ARES_TRUE), "transport matches the request's TCP flag");
    /* C09: a first attempt without prior failures goes to a best server */
    if (tries0 == q->try_count) {
      VP_ASSERT(q->conn->server->consec_failures == minf || q->conn->server == best_first || rotate,
                "attempt goes to a server with the fewest consecutive failures");
      if (!rotate) VP_ASSERT(q->conn->server == best_first, "without rotation: the first best server in configuration order");
      VP_WITNESS("sent on first choice");
    }
    if (q->conn == old) VP_WITNESS("reused existing connection");
  } else {
    VP_ASSERT(st != ARES_SUCCESS || M_reentered, "a completed request reports a failure status (or was cancelled from a callback)");
    VP_WITNESS("request ended");
  }
  /* ---- C06: budget ---- */
  VP_ASSERT(M_writes - writes0 <= budget - tries0 + (sib ? budget : 0), "transmissions bounded by the remaining retry budget");
  if (M_cb_count[tok] == 0) VP_ASSERT(q->try_count < budget, "a live request is within its retry budget");
  /* ---- C10: descriptors ---- */
  for (i = 0; i < VSOCK_MAXFD; i++) {
    VP_ASSERT(vsock[i].closes <= 1, "no descriptor closed twice");
    if (vsock[i].state == 2) VP_ASSERT(vsock[i].told_watch == 0, "closed descriptor: application was told to stop watching");
    if (vsock[i].state == 1) VP_ASSERT(ares_conn_from_fd(&M_ch, (ares_socket_t)i) != NULL, "open descriptor belongs to a registered connection");
  }
  if (sib != NULL && M_cb_count[sibtok] == 1) VP_WITNESS("sibling completed");
  if (M_reentered) VP_WITNESS("callback re-entered cancel");
  (void)oldfd; (void)old_total;

  /* drain: a final cancel completes everything exactly once */
  M_reenter_cancel = 0;
  ares_cancel(&M_ch);
  for (i = 0; i < (size_t)M_ntok; i++)
    VP_ASSERT(M_cb_count[i] == 1, "every request completes exactly once");
  VP_WITNESS("end");
}
