/* Obligation O1: ONE level of ares_send_query() on a channel in an ARBITRARY valid state; nested
 * ares_requeue_query() calls are replaced by their contract (rq_stub.c).
 * State: 1..2 servers with symbolic failure counters, 0..1 existing connection to the best server (UDP with
 * symbolic use count, or TCP) carrying 0..1 sibling request; every socket / cookie / serialisation failure
 * possible; completion callbacks (of siblings requeued when the connection is torn down) may call ares_cancel().
 * Serves C01 (exactly-once, no use after release), C06 (one transmission per level, try accounting),
 * C09 (server choice), C10 (descriptor protocol, udp_max_queries), C07 (deadline registered). */
#include "machine.h"

#ifndef NSRV
#  define NSRV 2
#endif

void harness(void)
{
  ares_server_t *srv[2] = { NULL, NULL };
  ares_conn_t   *old    = NULL;
  ares_query_t  *q, *sib = NULL;
  size_t         f0, f1 = 0, minf, i, writes0, tries0;
  ares_status_t  st;
  int            tok, sibtok = -1, existing, rotate, k, q_requeued = 0;
  ares_server_t *best_first;
  size_t         old_total0 = 0;

  M_init();
  M_ch.flags               = ARES_FLAG_STAYOPEN | (USEVC ? ARES_FLAG_USEVC : 0);
#if SIBLING
  /* sibling jobs target exactly-once / use-after-release under re-entrant completion: policy knobs concrete */
  M_ch.tries               = 2;
  M_ch.udp_max_queries     = 0;
  rotate                   = 0;
#else
  M_ch.tries               = vp_range(1, 3);
  M_ch.udp_max_queries     = vp_range(0, 2);
  rotate                   = vp_bool();
#endif
  M_ch.rotate              = rotate ? ARES_TRUE : ARES_FALSE;
  M_ch.server_retry_chance = 0; /* probes are exercised by the probe harness */
  M_reenter_cancel         = SIBLING; /* re-entry matters when another request completes during this attempt */
  f0     = vp_range(0, 2);
  srv[0] = world_add_server(&M_ch, 0, f0);
#if NSRV == 2
  f1     = vp_range(0, 2);
  srv[1] = world_add_server(&M_ch, 1, f1);
#endif
  minf       = (NSRV == 2 && f1 < f0) ? f1 : f0;
  best_first = (NSRV == 2 && f1 < f0) ? srv[1] : srv[0];

  existing = EXISTING; /* 0 none, 1 UDP, 2 TCP: on the best server (concrete per job) */
  if (existing) {
    old = world_add_conn(&M_ch, best_first, existing == 2);
    if (existing == 1 && !SIBLING) old->total_queries = vp_range(0, 3);
    if (SIBLING) { /* a sibling request in flight on it */
      sib    = M_new_query();
      sibtok = M_ntok - 1;
      M_attach(sib, old, 1005);
    }
  }
  if (old != NULL) old_total0 = old->total_queries;
  q            = M_new_query();
  tok          = M_ntok - 1;
  q->using_tcp = (M_ch.flags & ARES_FLAG_USEVC) ? ARES_TRUE : ARES_FALSE;
#if PREATTACHED
  /* read_answers() may hand the same request to ares_send_query() twice in one flush (two retry-inducing replies in
   * one read): the second time it is already in flight and must be re-registered, not registered twice */
  if (old != NULL) M_attach(q, old, 1004);
#endif
  if (old != NULL) old_total0 = old->total_queries; /* requests carried so far (incl. an earlier transmission of this one) */
  q->try_count = vp_range(0, 5);
  VP_ASSUME(q->try_count < NSRV * M_ch.tries); /* ares_requeue_query's budget check let it through */
  tries0  = q->try_count;
  writes0 = M_writes;

#ifdef M_OOM
  vp_alloc_calls   = 0; /* C14/C07: the M_OOM-th allocation of the attempt fails (concrete per job) */
  vp_alloc_fail_at = M_OOM;
#endif
  st = ares_send_query(NULL, q, &M_now);
#ifdef M_OOM
  vp_alloc_fail_at = 0;
#endif

  for (k = 0; k < RQ_calls; k++)
    if (RQ_query[k] == q) q_requeued++;
  /* (a request that was already in flight on the failing connection is additionally requeued by the teardown) */
  VP_ASSERT(q_requeued <= 1 + PREATTACHED, "a request is handed to requeue at most once per send attempt");
  VP_ASSERT(M_writes - writes0 <= 1, "one send attempt transmits the request at most once");
  if (q_requeued) {
    /* the send attempt failed and was handed on: it must count against the retry budget */
    for (k = 0; k < RQ_calls; k++)
      if (RQ_query[k] == q) VP_ASSERT(RQ_inc[k] == ARES_TRUE && RQ_status[k] != ARES_SUCCESS, "a failed attempt consumes retry budget and carries its error");
    VP_WITNESS("request handed to requeue");
  } else if (M_cb_count[tok] == 0) {
    VP_ASSERT(st == ARES_SUCCESS, "a request that is still live and not requeued was sent successfully");
    VP_ASSERT(M_writes - writes0 == 1, "a successful send attempt transmitted the request");
    VP_ASSERT(q->try_count == tries0, "a successful attempt does not consume retry budget");
    VP_ASSERT(q->conn != NULL && q->node_queries_by_timeout != NULL && q->node_queries_to_conn != NULL,
              "a sent request is in flight with a deadline registered");
    VP_ASSERT(vsock[q->conn->fd].state == 1, "in flight on an open connection");
    VP_ASSERT(ares_timedout(&M_now, &q->timeout) == ARES_FALSE, "fresh deadline lies in the future");
    VP_ASSERT(ares_slist_node_val(ares_slist_node_find(M_ch.queries_by_timeout, q)) != NULL, "deadline is in the timeout index");
    if (!(q->conn->flags & ARES_CONN_FLAG_TCP) && M_ch.udp_max_queries > 0)
      VP_ASSERT(q->conn->total_queries <= M_ch.udp_max_queries, "a UDP socket never carries more than udp_max_queries requests");
    VP_ASSERT(((q->conn->flags & ARES_CONN_FLAG_TCP) != 0) == (q->using_tcp == ARES_TRUE), "transport matches the request's TCP flag");
    VP_ASSERT(q->conn->server->consec_failures == minf, "attempt goes to a server with the fewest consecutive failures");
    if (!rotate) VP_ASSERT(q->conn->server == best_first, "without rotation: the first such server in configuration order");
    /* the per-socket use count is what enforces udp_max_queries: it must count EVERY request carried, retries included */
    if (q->conn == old) {
      VP_ASSERT(old->total_queries == old_total0 + 1, "every request carried by a socket is counted against its limit");
      VP_WITNESS("reused existing connection");
    } else {
      VP_ASSERT(q->conn->total_queries == 1, "every request carried by a socket is counted against its limit");
      VP_WITNESS("opened a connection");
    }
    VP_WITNESS("sent");
  } else {
    VP_ASSERT(M_cb_count[tok] == 1, "completed exactly once");
    VP_ASSERT(st != ARES_SUCCESS || M_reentered, "a request completed during the attempt reports failure (or was cancelled from a callback)");
    VP_WITNESS("request ended");
  }
  /* descriptors */
  for (i = 0; i < VSOCK_MAXFD; i++) {
    VP_ASSERT(vsock[i].closes <= 1, "no descriptor closed twice");
    if (vsock[i].state == 2) VP_ASSERT(vsock[i].told_watch == 0, "closed descriptor: application was told to stop watching");
    if (vsock[i].state == 1) VP_ASSERT(ares_conn_from_fd(&M_ch, (ares_socket_t)i) != NULL, "open descriptor belongs to a registered connection");
  }
  /* C09: "each failure demotes the server" BEFORE the requests on the broken connection are moved elsewhere, so that
   * they go to a server with fewer failures instead of straight back to the one that just failed */
  if (sib != NULL) {
    for (k = 0; k < RQ_calls; k++)
      if (RQ_query[k] == sib)
        VP_ASSERT(RQ_srvfail[k] == (NSRV == 2 && f1 < f0 ? f1 : f0) + 1, "the failed server is demoted before the requests on its broken connection are requeued");
  }
  if (sib != NULL && M_cb_count[sibtok] == 1) VP_WITNESS("sibling completed");
  if (M_reentered) VP_WITNESS("callback re-entered cancel");
  /* link-state invariant: every request in flight has exactly one deadline entry and one connection entry */
  {
    ares_llist_node_t *n;
    size_t             inflight = 0;
    for (n = ares_llist_node_first(M_ch.all_queries); n != NULL; n = ares_llist_node_next(n)) {
      ares_query_t *lq = ares_llist_node_val(n);
      VP_ASSERT((lq->conn != NULL) == (lq->node_queries_to_conn != NULL) && (lq->conn != NULL) == (lq->node_queries_by_timeout != NULL),
                "a request is on a connection iff it is in that connection's list and in the timeout index");
      if (lq->conn != NULL) {
        inflight++;
        VP_ASSERT(vsock[lq->conn->fd].state == 1, "a request never sits on a closed connection");
      }
    }
    VP_ASSERT(ares_slist_len(M_ch.queries_by_timeout) == inflight, "the timeout index holds exactly one entry per request in flight (no stale deadline)");
    VP_ASSERT(ares_htable_szvp_num_keys(M_ch.queries_by_qid) == ares_llist_len(M_ch.all_queries), "qid index = live requests");
  }
  VP_ASSERT(vp_lock_depth == 0, "channel lock balanced");
  VP_WITNESS("end");
}
