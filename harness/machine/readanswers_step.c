/* C01: read_answers() must never have the connection it is reading from closed under it (same function as
 * CVE-2025-31498).  One complete frame is waiting in the input buffer; it answers the request in flight; the
 * completion callback starts a FOLLOW-UP request (what search / getaddrinfo do), which ares_send_query() may place on
 * the very connection under read, where its write may fail.
 * Real: read_answers, process_answer, end_query, ares_send_query (one level; nested requeue = contract stub),
 * ares_conn_query_write, ares_conn_flush, handle_conn_error, ares_close_connection, real ares_buf.
 * The parser is a stub handing out an abstract matching response. */
#define M_NO_QCACHE_INSERT
#include "machine.h"

static ares_dns_record_t *M_resp;
static int                followups;
static ares_query_t      *followup_q;
ares_status_t ares_dns_parse(const unsigned char *buf, size_t buf_len, unsigned int flags, ares_dns_record_t **dnsrec)
{
  (void)buf; (void)buf_len; (void)flags;
  *dnsrec = M_resp;
  M_resp  = NULL;
  return *dnsrec ? ARES_SUCCESS : ARES_EBADRESP;
}
ares_status_t ares_qcache_insert(ares_channel_t *ch, const ares_timeval_t *now, const ares_query_t *q, ares_dns_record_t *r)
{ (void)ch; (void)now; (void)q; (void)r; return ARES_ENOTFOUND; }

static void followup_cb(void *arg, ares_status_t status, size_t timeouts, const ares_dns_record_t *dnsrec)
{
  int *cnt = arg;
  (void)timeouts; (void)dnsrec; (void)status;
  (*cnt)++;
  VP_ASSERT(*cnt == 1, "completion callback invoked at most once per request");
  if (followups == 0 && vp_bool()) {
    /* the application (or search/getaddrinfo) issues the next request from inside the callback */
    followups++;
    followup_q = M_new_query();
    followup_q->using_tcp = USEVC ? ARES_TRUE : ARES_FALSE;
    (void)ares_send_query(NULL, followup_q, &M_now);
  }
}

void harness(void)
{
  ares_server_t *srv;
  ares_conn_t   *conn;
  ares_query_t  *q;
  ares_socket_t  fd;
  static const unsigned char frame[3] = { 0, 1, 0x42 };
  ares_status_t  st;
  int            tok;

  M_init();
  M_ch.flags = ARES_FLAG_STAYOPEN | (USEVC ? ARES_FLAG_USEVC : 0);
  M_ch.tries = 2;
  srv  = world_add_server(&M_ch, 0, 0);
  conn = world_add_conn(&M_ch, srv, USEVC);
  fd   = conn->fd;
  q    = M_new_query();
  tok  = M_ntok - 1;
  q->callback = followup_cb;
  M_attach(q, conn, 1005);
  M_resp = vp_absrec_new(q->qid);
  vp_absrec_set_question(M_resp, "a", 1, 1);
  VP_ASSUME(ares_buf_append(conn->in_buf, frame, sizeof(frame)) == ARES_SUCCESS);

  st = read_answers(conn, &M_now);
  (void)st;

  VP_ASSERT(M_cb_count[tok] == 1, "the answered request completed exactly once");
  if (followups) {
    VP_WITNESS("follow-up request started from the callback");
    if (vsock[fd].state == 2) VP_WITNESS("follow-up write failure closed the connection under read");
  }
  VP_WITNESS("end");
}
