/* C01 contract "G-send" (assumed by the search / getaddrinfo harnesses) checked on the REAL ares_send_nolock():
 * whatever happens - no servers, cache hit or cache error, allocation failure at ANY point, duplicate failure with any
 * status, 0x20 failure, list / index insertion failure, any outcome of the first send attempt -
 *   returns != SUCCESS  =>  the completion callback has been invoked exactly once;
 *   returns == SUCCESS  =>  invoked exactly once (synchronous completion) or the request is live and indexed.
 * Also C14: any single allocation failure leaves nothing leaked (ledger) and the channel consistent.
 * Real: ares_send_nolock, generate_unique_qid, ares_apply_dns0x20 (ares_send.c included); nested ares_send_query is its
 * contract (sq_stub.c); record layer abstract; qcache = any documented status. */
#define M_NO_QCACHE_FETCH
#include "machine.h"
#include "ares_send.c"

static int                cache_mode;
static ares_dns_record_t *cached_rec;
ares_status_t ares_qcache_fetch(ares_channel_t *ch, const ares_timeval_t *now, const ares_dns_record_t *req,
                                const ares_dns_record_t **resp)
{
  (void)ch; (void)now; (void)req;
  if (cache_mode == 0) return ARES_ENOTFOUND;
  if (cache_mode == 1) { *resp = cached_rec; return ARES_SUCCESS; }
  return ARES_ENOMEM;
}
static int dup_status;
ares_status_t ares_dns_record_duplicate_ex(ares_dns_record_t **dest, const ares_dns_record_t *src)
{
  *dest = NULL;
  if (dup_status != ARES_SUCCESS) return (ares_status_t)dup_status;
  *dest = ares_dns_record_duplicate(src);
  return *dest ? ARES_SUCCESS : ARES_ENOMEM;
}
static void user_cb(void *arg, ares_status_t status, size_t timeouts, const ares_dns_record_t *dnsrec)
{
  int *cnt = arg;
  (void)timeouts; (void)dnsrec;
  (*cnt)++;
  VP_ASSERT(*cnt == 1, "completion callback invoked at most once per request");
  M_cb_status[cnt - M_cb_count] = status;
}

void harness(void)
{
  ares_dns_record_t *req;
  ares_status_t      st;
  unsigned short     qid = 0;
  long               live0;
  int                nservers;
  ares_server_t     *srv = NULL;

  M_init();
  M_ch.flags = (vp_bool() ? ARES_FLAG_DNS0x20 : 0) | (vp_bool() ? ARES_FLAG_USEVC : 0);
  nservers   = vp_bool();
  if (nservers) srv = world_add_server(&M_ch, 0, 0);
  (void)srv;
  req = vp_absrec_new(7);
  vp_absrec_set_question(req, "aB1", 1, 1);
  cached_rec = vp_absrec_new(9);
  cache_mode = (int)vp_range(0, 2);
  dup_status = vp_bool() ? (int)vp_range(1, 24) : ARES_SUCCESS;
  vp_absrec_setname_may_fail = 1;
  vp_absrec_dup_may_fail     = 1;
  M_ntok = 1; /* token 0 = this request */
  live0  = vp_alloc_live;
  vp_alloc_fail_at = vp_range(0, 6);
  if (vp_alloc_fail_at != 0) vp_alloc_fail_at += vp_alloc_calls;

  st = ares_send_nolock(&M_ch, NULL, vp_bool() ? ARES_SEND_FLAG_NOCACHE : 0, req, user_cb, &M_cb_count[0], &qid);
  vp_alloc_fail_at = 0;

  if (st != ARES_SUCCESS) {
    VP_ASSERT(M_cb_count[0] == 1, "G-send: a failure status is returned only after the callback has been invoked once");
    VP_ASSERT(ares_llist_len(M_ch.all_queries) == 0 && ares_htable_szvp_num_keys(M_ch.queries_by_qid) == 0, "a failed send leaves no request linked");
    VP_ASSERT(vp_alloc_live == live0, "a failed send releases everything it allocated (no leak on any failure point)");
    VP_WITNESS("failed");
  } else if (M_cb_count[0] == 1) {
    VP_ASSERT(ares_llist_len(M_ch.all_queries) == 0 && ares_htable_szvp_num_keys(M_ch.queries_by_qid) == 0, "a synchronously completed request is not left linked");
    VP_ASSERT(vp_alloc_live == live0, "synchronous completion releases everything");
    VP_WITNESS("completed synchronously");
  } else {
    ares_query_t *q = ares_htable_szvp_get_direct(M_ch.queries_by_qid, qid);
    VP_ASSERT(M_cb_count[0] == 0, "G-send: still pending");
    VP_ASSERT(q != NULL && q->qid == qid && ares_llist_len(M_ch.all_queries) == 1 && q->node_all_queries != NULL, "pending request is linked and indexed under the returned id");
    VP_ASSERT(SQ_calls == 1 && SQ_query[0] == q, "handed to exactly one send attempt");
    VP_ASSERT(q->query != req && ares_dns_record_get_id(q->query) == qid, "the request works on its own copy carrying its id");
    VP_ASSERT(q->using_tcp == ((M_ch.flags & ARES_FLAG_USEVC) ? ARES_TRUE : ARES_FALSE), "transport follows the channel flag");
    VP_WITNESS("pending");
  }
  VP_WITNESS("end");
}
