/* C07 / process_timeouts(): every request whose deadline is at or before `now` is retried or failed (handed to
 * requeue with a timeout, exactly once, its server demoted), none whose deadline lies in the future is touched.
 * Real: process_timeouts, server_increment_failures, ares_timedout (ares_process.c); nested ares_requeue_query is its
 * contract (rq_stub.c).  State: 1..2 requests in flight with ARBITRARY deadlines, arbitrary `now`. */
#include "machine.h"

void harness(void)
{
  ares_server_t *srv;
  ares_conn_t   *conn;
  ares_query_t  *q[2];
  int            tok[2], n, i, k, expired[2], calls[2];
  size_t         fail0, to0[2];
  ares_status_t  st;

  M_init();
  M_ch.flags = ARES_FLAG_STAYOPEN;
  srv        = world_add_server(&M_ch, 0, vp_range(0, 2));
  conn       = world_add_conn(&M_ch, srv, vp_bool());
  n          = NQ;
  M_now.sec  = (ares_int64_t)vp_range(1000, 1003);
  M_now.usec = (unsigned int)vp_range(0, 999999);
  /* the timeout index is built with a CONCRETE structure (q[0] before q[1]); the deadlines are then made symbolic under
   * the assumption that they respect that order - every sorted 2-element index is covered up to renaming */
  for (i = 0; i < n; i++) {
    q[i]   = M_new_query();
    tok[i] = M_ntok - 1;
    M_attach(q[i], conn, (ares_int64_t)(1 + i));
  }
  for (i = 0; i < n; i++) {
    q[i]->timeout.sec  = (ares_int64_t)vp_range(1000, 1003);
    q[i]->timeout.usec = (unsigned int)vp_range(0, 999999);
    to0[i]             = q[i]->timeouts;
  }
  if (n == 2) VP_ASSUME(world_query_timeout_cmp(q[0], q[1]) <= 0);
  for (i = 0; i < n; i++)
    expired[i] = (q[i]->timeout.sec < M_now.sec) || (q[i]->timeout.sec == M_now.sec && q[i]->timeout.usec <= M_now.usec);
  fail0 = srv->consec_failures;

  st = process_timeouts(&M_ch, &M_now);
  VP_ASSERT(st == ARES_SUCCESS || st == ARES_ENOMEM, "timeout processing reports only memory exhaustion");

  for (i = 0; i < n; i++) {
    calls[i] = 0;
    for (k = 0; k < RQ_calls; k++)
      if (RQ_query[k] == q[i]) {
        calls[i]++;
        VP_ASSERT(RQ_status[k] == ARES_ETIMEOUT && RQ_inc[k] == ARES_TRUE && !RQ_deferred[k],
                  "an expired request is retried as a timeout that consumes retry budget");
      }
    if (expired[i]) {
      /* memory exhaustion aborts the pass; the requests not reached keep their place in the index for the next pass */
      VP_ASSERT(calls[i] == 1 || (st == ARES_ENOMEM && calls[i] == 0 && q[i]->node_queries_by_timeout != NULL),
                "a request at or past its deadline is retried or failed, exactly once (or still indexed after an out-of-memory abort)");
    } else {
      VP_ASSERT(calls[i] == 0, "a request whose deadline lies in the future is not touched");
      VP_ASSERT(M_cb_count[tok[i]] == 0 && q[i]->conn == conn && q[i]->timeouts == to0[i], "untouched request stays in flight");
    }
  }
  VP_ASSERT(srv->consec_failures == fail0 + (size_t)RQ_calls, "each timeout demotes the server once");
  if (st != ARES_ENOMEM) VP_WITNESS("pass completed");
  if (RQ_calls == n && n == 2) VP_WITNESS("both expired");
  if (RQ_calls == 0) VP_WITNESS("none expired");
  /* afterwards the earliest remaining deadline is in the future */
  {
    ares_query_t *first = ares_slist_first_val(M_ch.queries_by_timeout);
    if (first != NULL && st != ARES_ENOMEM) VP_ASSERT(!ares_timedout(&M_now, &first->timeout), "no expired request is left in the timeout index");
  }
  VP_WITNESS("end");
}
