/* C07 / process_timeouts(): every request whose deadline is at or before `now` is retried or failed (handed to
 * requeue with a timeout, exactly once, its server demoted), none whose deadline lies in the future is touched.
 * Real: process_timeouts, server_increment_failures, ares_timedout (ares_process.c); nested ares_requeue_query is its
 * contract (rq_stub.c).  State: 1..2 requests in flight with ARBITRARY deadlines, arbitrary `now`. */
#include "machine.h"

void harness(void)
{
  ares_server_t *srv;
  ares_conn_t   *conn;
  ares_query_t  *q[2];
  int            tok[2], n, i, k, expired[2], calls[2];
  size_t         fail0, to0[2];
  ares_status_t  st;

  M_init();
  M_ch.flags = ARES_FLAG_STAYOPEN;
  srv        = world_add_server(&M_ch, 0, vp_range(0, 2));
  conn       = world_add_conn(&M_ch, srv, vp_bool());
  n          = NQ;
  M_now.sec  = (ares_int64_t)vp_range(1000, 1010);
  M_now.usec = (unsigned int)vp_range(0, 999999);
  for (i = 0; i < n; i++) {
    q[i]   = M_new_query();
    tok[i] = M_ntok - 1;
    M_attach(q[i], conn, (ares_int64_t)vp_range(1000, 1010));
    q[i]->timeout.usec = (unsigned int)vp_range(0, 999999);
    ares_slist_node_reinsert(q[i]->node_queries_by_timeout);
    expired[i] = (q[i]->timeout.sec < M_now.sec) || (q[i]->timeout.sec == M_now.sec && q[i]->timeout.usec <= M_now.usec);
    to0[i]     = q[i]->timeouts;
  }
  fail0 = srv->consec_failures;

  st = process_timeouts(&M_ch, &M_now);
  VP_ASSERT(st == ARES_SUCCESS || st == ARES_ENOMEM, "timeout processing reports only memory exhaustion");

  for (i = 0; i < n; i++) {
    calls[i] = 0;
    for (k = 0; k < RQ_calls; k++)
      if (RQ_query[k] == q[i]) {
        calls[i]++;
        VP_ASSERT(RQ_status[k] == ARES_ETIMEOUT && RQ_inc[k] == ARES_TRUE && !RQ_deferred[k],
                  "an expired request is retried as a timeout that consumes retry budget");
      }
    if (expired[i]) {
      VP_ASSERT(calls[i] == 1, "a request at or past its deadline is retried or failed, exactly once");
    } else {
      VP_ASSERT(calls[i] == 0, "a request whose deadline lies in the future is not touched");
      VP_ASSERT(M_cb_count[tok[i]] == 0 && q[i]->conn == conn && q[i]->timeouts == to0[i], "untouched request stays in flight");
    }
  }
  VP_ASSERT(srv->consec_failures == fail0 + (size_t)RQ_calls, "each timeout demotes the server once");
  if (RQ_calls == n && n == 2) VP_WITNESS("both expired");
  if (RQ_calls == 0) VP_WITNESS("none expired");
  /* afterwards the earliest remaining deadline is in the future */
  {
    ares_query_t *first = ares_slist_first_val(M_ch.queries_by_timeout);
    if (first != NULL) VP_ASSERT(!ares_timedout(&M_now, &first->timeout), "no expired request is left in the timeout index");
  }
  VP_WITNESS("end");
}
