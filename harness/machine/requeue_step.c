/* Obligation O2: ONE ares_requeue_query() (real, with the real end_query / ares_free_query / detach) for a request in
 * an ARBITRARY valid state; the nested ares_send_query() is replaced by its contract (sq_stub.c).
 * C06: the retry budget is servers x tries; a request over budget (or marked no-retries) completes with a definite
 * failure status, one within budget is sent again exactly once; try accounting follows inc_try_count.
 * C01: completes at most once; never touched after release. */
#include "machine.h"

void harness(void)
{
  ares_server_t *srv[2];
  ares_conn_t   *conn;
  ares_query_t  *q;
  int            tok, deferred, no_retries, attached, is_probe;
  size_t         tries0, tries1, budget;
  ares_status_t  st, in_status, prev_err, expect;
  ares_bool_t    inc;
  ares_array_t  *arr = NULL;

  M_init();
  M_ch.flags = ARES_FLAG_STAYOPEN;
  M_ch.tries = vp_range(1, 1000000);
  srv[0]     = world_add_server(&M_ch, 0, vp_range(0, 2));
#if NSRV == 2
  srv[1]     = world_add_server(&M_ch, 1, vp_range(0, 2));
#endif
  conn = world_add_conn(&M_ch, srv[0], vp_bool());
  q    = M_new_query();
  tok  = M_ntok - 1;
  attached = vp_bool();
  if (attached) M_attach(q, conn, 1005);
  /* the request may be a health probe of the server it is in flight on (ares_probe_failed_server) */
  is_probe = attached && vp_bool();
  if (is_probe) srv[0]->probe_pending = ARES_TRUE;
  q->try_count    = vp_range(0, 3000000);
  no_retries      = vp_bool();
  q->no_retries   = no_retries ? ARES_TRUE : ARES_FALSE;
  q->error_status = (ares_status_t)vp_range(0, 24);
  prev_err        = q->error_status;
  in_status       = (ares_status_t)vp_range(0, 24);
  inc             = vp_bool() ? ARES_TRUE : ARES_FALSE;
  deferred        = vp_bool();
  tries0          = q->try_count;
  budget          = (size_t)NSRV * M_ch.tries;
  VP_ASSUME(tries0 <= budget); /* invariant of the counter: it only grows by one per step and stops at the budget */
  tries1 = tries0 + (inc ? 1 : 0);

#ifdef M_OOM
  VP_ASSUME(deferred); /* the immediate branch allocates only inside the send step (obligation O1, send_early/sendquery OOM jobs) */
  vp_alloc_calls   = 0; /* harness-owned counter: restart it so that the failing index is a constant */
  vp_alloc_fail_at = M_OOM; /* C14: the M_OOM-th allocation of the step fails */
#endif
  st = ares_requeue_query(q, &M_now, in_status, inc, NULL, deferred ? &arr : NULL);
#ifdef M_OOM
  vp_alloc_fail_at = 0;
#endif

  if (tries1 < budget && !no_retries) {
    /* within budget: transmitted again, exactly once, not completed by requeue itself */
    if (deferred && st == ARES_ENOMEM) {
      /* the resend could not be recorded: the request must not be left behind with no connection, no deadline and no
       * resend entry (nothing would ever retry or fail it): it reports the failure, exactly once */
      VP_ASSERT(SQ_calls == 0 && ares_array_len(arr) == 0, "a failed deferral neither sends nor records");
      VP_ASSERT(M_cb_count[tok] == 1 && M_cb_status[tok] == ARES_ENOMEM,
                "FINDING requeue_oom_orphan: a request whose deferred resend cannot be recorded reports ENOMEM, once");
      VP_WITNESS("deferral failed");
    } else if (deferred) {
      VP_ASSERT(SQ_calls == 0 && M_cb_count[tok] == 0, "deferred requeue neither sends nor completes");
      VP_ASSERT(st == ARES_SUCCESS && ares_array_len(arr) == 1, "deferred requeue records the request for the flush");
      VP_ASSERT(q->conn == NULL && q->node_queries_to_conn == NULL && q->node_queries_by_timeout == NULL,
                "deferred request has left its connection and the timeout index");
      VP_ASSERT(q->try_count == tries1, "try accounting follows inc_try_count");
      VP_WITNESS("deferred");
    } else {
      VP_ASSERT(SQ_calls == 1 && SQ_query[0] == q && SQ_server[0] == NULL, "within budget: sent again exactly once, server chosen afresh");
      VP_ASSERT(M_cb_count[tok] == (SQ_inflight[tok] ? 0 : 1), "completion is left to the send step");
      if (SQ_inflight[tok]) VP_ASSERT(q->try_count == tries1, "try accounting follows inc_try_count");
      VP_WITNESS("resent");
    }
  } else {
    /* budget exhausted or no-retries: definite completion */
    VP_ASSERT(SQ_calls == 0, "over budget: never transmitted again");
    VP_ASSERT(M_cb_count[tok] == 1, "over budget: completed exactly once");
    expect = (in_status != ARES_SUCCESS) ? in_status : prev_err;
    if (expect == ARES_SUCCESS) expect = ARES_ETIMEOUT;
    VP_ASSERT(M_cb_status[tok] == expect, "final status is the last error seen, or timeout");
    VP_ASSERT(M_cb_status[tok] != ARES_SUCCESS, "a request never fails with a success status");
    VP_ASSERT(st == ARES_ETIMEOUT, "requeue reports the end of the request");
    /* C09: a probe that ends (it never retries) must release the server for the next probe after the retry delay */
    if (is_probe) {
      VP_ASSERT(srv[0]->probe_pending == ARES_FALSE, "a finished probe clears the server's probe-pending mark (else the server is never probed again)");
      VP_WITNESS("probe ended");
    }
    VP_WITNESS("budget exhausted");
  }
  M_check_links_relaxed();
  ares_array_destroy(arr);
  VP_WITNESS("end");
}
