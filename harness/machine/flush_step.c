/* C07/C01: the deferred-requeue flush of read_answers().  Two complete frames wait in the input buffer; both answer
 * requests in flight and both make process_answer() defer a resend (truncation => TCP).  Whatever the first resend
 * returns (ENOMEM included), EVERY deferred request must be handed to ares_send_query() exactly once - a request left
 * out would stay live with no connection and no deadline (ares_timeout() reports none, nothing ever retries it).
 * Real: read_answers, process_answer, ares_append_requeue; ares_send_query = contract stub (sq_stub.c). */
#define M_NO_QCACHE_INSERT
#include "machine.h"

static ares_dns_record_t *resp[2];
static int                parsed;
ares_status_t ares_dns_parse(const unsigned char *buf, size_t buf_len, unsigned int flags, ares_dns_record_t **dnsrec)
{
  (void)buf; (void)buf_len; (void)flags;
  VP_BOUND(parsed < 2, "two frames only");
  *dnsrec = resp[parsed++];
  return ARES_SUCCESS;
}
ares_status_t ares_qcache_insert(ares_channel_t *ch, const ares_timeval_t *now, const ares_query_t *q, ares_dns_record_t *r)
{ (void)ch; (void)now; (void)q; (void)r; return ARES_ENOTFOUND; }

void harness(void)
{
  ares_server_t *srv;
  ares_conn_t   *conn;
  ares_query_t  *q[2];
  int            tok[2], i, k;
  static const unsigned char frames[6] = { 0, 1, 0x41, 0, 1, 0x42 };

  M_init();
  M_ch.flags = ARES_FLAG_STAYOPEN;
  srv  = world_add_server(&M_ch, 0, 0);
  conn = world_add_conn(&M_ch, srv, 0);
  for (i = 0; i < 2; i++) {
    q[i]   = M_new_query();
    tok[i] = M_ntok - 1;
    M_attach(q[i], conn, 1005);
    resp[i] = vp_absrec_new(q[i]->qid);
    vp_absrec_set_question(resp[i], "a", 1, 1);
    resp[i]->flags = ARES_FLAG_TC; /* truncated UDP answer: deferred resend over TCP */
  }
  VP_ASSUME(ares_buf_append(conn->in_buf, frames, sizeof(frames)) == ARES_SUCCESS);

  (void)read_answers(conn, &M_now);

  VP_ASSERT(parsed == 2, "both frames processed");
  for (i = 0; i < 2; i++) {
    int sent = 0;
    for (k = 0; k < SQ_calls; k++) if (SQ_query[k] == q[i]) sent++;
    VP_ASSERT(M_cb_count[tok[i]] <= 1, "no request completes twice");
    VP_ASSERT(sent == 1, "every deferred request is handed to a send attempt exactly once, whatever the other resend returned");
    VP_ASSERT(M_cb_count[tok[i]] == 1 || SQ_inflight[tok[i]], "afterwards each request is completed or in flight again - never live without a deadline");
  }
  VP_WITNESS("end");
}
