/* C10: ares_check_cleanup_conns() / ares_close_sockets() from an ARBITRARY connection set.
 *  OP 0 ares_check_cleanup_conns: closes exactly the idle connections that should go (not stay-open, or server has
 *       failures, or UDP use count reached udp_max_queries); busy connections are never closed; each closed descriptor
 *       is closed once, unregistered, and the application is told to stop watching exactly once.
 *  OP 1 ares_close_sockets(server): closes every connection of that server; requests on them are handed to requeue
 *       (contract stub) exactly once each and never land on a closing connection.
 * Real: ares_close_sockets.c (linked), ares_conn_sock_state_cb_update, ares_socket_close. */
#include "machine.h"

void harness(void)
{
  static const char *shape[2] = { SHAPE0, SHAPE1 };
  ares_server_t     *srv[2];
  ares_conn_t       *conns[8];
  ares_socket_t      fds[8];
  int                busy[8], tcp[8], owner[8], maxed[8], nconn = 0, i, ns = NS, k;
  ares_query_t      *qs[8];

  M_init();
  M_ch.flags           = vp_bool() ? ARES_FLAG_STAYOPEN : 0;
  M_ch.udp_max_queries = vp_range(0, 2);
  for (i = 0; i < ns; i++) {
    int c;
    srv[i] = world_add_server(&M_ch, (size_t)i, vp_range(0, 1));
    for (c = 0; shape[i][c] != 0; c++) {
      conns[nconn] = world_add_conn(&M_ch, srv[i], shape[i][c] == 't');
      fds[nconn]   = conns[nconn]->fd;
      tcp[nconn]   = shape[i][c] == 't';
      owner[nconn] = i;
      conns[nconn]->total_queries = vp_range(0, 3);
      maxed[nconn] = !tcp[nconn] && M_ch.udp_max_queries > 0 && conns[nconn]->total_queries >= M_ch.udp_max_queries;
      busy[nconn]  = vp_bool();
      qs[nconn]    = NULL;
      if (busy[nconn]) {
        size_t tq = conns[nconn]->total_queries;
        qs[nconn] = M_new_query();
        M_attach(qs[nconn], conns[nconn], 1005);
        conns[nconn]->total_queries = tq; /* keep the symbolic use count */
      }
      nconn++;
    }
  }

#if OP == 0
  ares_check_cleanup_conns(&M_ch);
  for (i = 0; i < nconn; i++) {
    int should = !busy[i] && (!(M_ch.flags & ARES_FLAG_STAYOPEN) || srv[owner[i]]->consec_failures > 0 || maxed[i]);
    VP_ASSERT((vsock[fds[i]].state == 2) == (should != 0), "exactly the idle connections that are due are closed; busy ones never");
    if (should) {
      VP_ASSERT(vsock[fds[i]].closes == 1, "closed exactly once");
      VP_ASSERT(vsock[fds[i]].told_watch == 0 && vsock[fds[i]].stop_calls == 1, "told to stop watching exactly once");
      VP_ASSERT(ares_conn_from_fd(&M_ch, fds[i]) == NULL, "closed connection unregistered");
      VP_WITNESS("closed an idle connection");
    } else {
      VP_ASSERT(ares_conn_from_fd(&M_ch, fds[i]) == conns[i] && vsock[fds[i]].stop_calls == 0, "kept connection untouched");
    }
  }
  VP_ASSERT(RQ_calls == 0, "cleanup never requeues");
#else
  ares_close_sockets(srv[0]);
  VP_ASSERT(ares_llist_len(srv[0]->connections) == 0 && srv[0]->tcp_conn == NULL, "all connections of the server are gone");
  for (i = 0; i < nconn; i++) {
    if (owner[i] == 0) {
      int n = 0;
      VP_ASSERT(vsock[fds[i]].state == 2 && vsock[fds[i]].closes == 1, "each of its sockets closed exactly once");
      VP_ASSERT(vsock[fds[i]].told_watch == 0 && vsock[fds[i]].stop_calls == 1, "told to stop watching exactly once");
      VP_ASSERT(ares_conn_from_fd(&M_ch, fds[i]) == NULL, "unregistered");
      for (k = 0; k < RQ_calls; k++) if (busy[i] && RQ_query[k] == qs[i]) n++;
      if (busy[i]) { VP_ASSERT(n == 1, "a request on a closing connection is requeued exactly once"); VP_WITNESS("requeued from closing connection"); }
    } else {
      VP_ASSERT(vsock[fds[i]].state == 1 && ares_conn_from_fd(&M_ch, fds[i]) == conns[i], "other servers' connections untouched");
    }
  }
#endif
  for (i = 0; i < VSOCK_MAXFD; i++) VP_ASSERT(vsock[i].closes <= 1, "no descriptor closed twice");
  M_check_links_relaxed();
  VP_WITNESS("end");
}
