/* C01/C10: ares_close_connection() of a connection carrying TWO requests while completion callbacks may call
 * ares_cancel() (which completes and releases every other request, including those still waiting on the closing
 * connection's list).  Real: ares_close_connection, ares_requeue_queries (ares_close_sockets.c), ares_cancel,
 * end_query/ares_free_query; nested ares_requeue_query is its contract (rq_stub.c: completes the request through its
 * callback or leaves it to be re-sent).
 * Oracle: every request completes at most once, a released request is never touched again (pointer checks inside the
 * stub and the loop), the descriptor is closed exactly once, and a final cancel completes whatever is left. */
#include "machine.h"

void harness(void)
{
  ares_server_t *srv;
  ares_conn_t   *conn;
  ares_query_t  *q[3];
  int            tok[3], i, n = NQ;
  ares_socket_t  fd;

  M_init();
  M_ch.flags = ARES_FLAG_STAYOPEN;
  srv        = world_add_server(&M_ch, 0, vp_range(0, 1));
  conn       = world_add_conn(&M_ch, srv, vp_bool());
  fd         = conn->fd;
  for (i = 0; i < n; i++) {
    q[i]   = M_new_query();
    tok[i] = M_ntok - 1;
    M_attach(q[i], conn, 1005 + i);
  }
  M_reenter_cancel = 1;

  ares_close_connection(conn, (ares_status_t)vp_range(0, 24));

  VP_ASSERT(vsock[fd].state == 2 && vsock[fd].closes == 1, "the connection's descriptor is closed exactly once");
  VP_ASSERT(ares_conn_from_fd(&M_ch, fd) == NULL && ares_llist_len(srv->connections) == 0, "closed connection unregistered");
  for (i = 0; i < n; i++) {
    int k, cnt = 0;
    VP_ASSERT(M_cb_count[tok[i]] <= 1, "no request completes twice");
    for (k = 0; k < RQ_calls; k++) if (RQ_query[k] == q[i]) cnt++;
    VP_ASSERT(cnt <= 1, "a request on the closing connection is requeued at most once");
    VP_ASSERT(cnt == 1 || M_cb_count[tok[i]] == 1, "every request on the closing connection is requeued or was completed (cancelled) meanwhile");
  }
  if (M_reentered) VP_WITNESS("callback cancelled during teardown");
  M_check_links_relaxed();
  /* nothing is left on a closed connection; a final cancel completes the rest exactly once */
  M_reenter_cancel = 0;
  M_depth          = 1;
  ares_cancel(&M_ch);
  for (i = 0; i < n; i++) VP_ASSERT(M_cb_count[tok[i]] == 1, "every request completes exactly once");
  VP_WITNESS("end");
}
