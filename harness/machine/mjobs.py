"""Shared job definitions for the send-machine harnesses (imported by C01/C05/C06/C07/C09/C10 jobs.py)."""
LIB = ["src/lib/ares_library_init.c", "src/lib/dsa/ares_llist.c", "src/lib/dsa/ares_array.c", "src/lib/str/ares_buf.c",
       "src/lib/str/ares_str.c", "src/lib/util/ares_math.c", "src/lib/ares_conn.c", "src/lib/ares_socket.c",
       "src/lib/ares_close_sockets.c", "src/lib/ares_cancel.c", "src/lib/ares_metrics.c", "src/lib/ares_send.c",
       "src/lib/util/ares_timeval.c"]
SUP = ["vp_rt.c", "valloc.c", "memloops.c", "slist_ref.c", "szvp_ref.c", "asvp_ref.c", "lock_ghost.c", "dnsrec_abs.c",
       "vsock.c", "world.c"]
ASSUMPTIONS = ["reference containers slist_ref / szvp_ref / asvp_ref (real ones checked against the same contracts in C19)",
               "virtual sockets (vsock.c) with all-or-nothing transfers in the machine harnesses",
               "abstract DNS records; ares_dns_write_buf_tcp = append a 3-byte frame or fail; cookie/qcache neighbours return "
               "any documented status; clock is a harness variable; RNG returns arbitrary bytes",
               "callbacks re-enter ares_cancel at depth 1 only"]

def sendquery_jobs(tier):
    J = []
    for nsrv in (1, 2):
        J.append(dict(name="sendquery_srv%d" % nsrv, harness="../machine/sendquery.c", defines=["-DNSRV=%d" % nsrv],
                      real=LIB, support=SUP, unwind=8, backend="cadical", timeout=900, mem_gb=16,
                      unwindset=["ares_send_query:5", "ares_requeue_query:5", "end_query:5", "ares_close_connection:5",
                                 "handle_conn_error:5", "ares_cancel:3", "M_user_cb:3"],
                      witnesses=["end", "request ended", "sent on first choice"],
                      bound="ONE ares_send_query on %d server(s) with failure counters 0..2, tries 1..2, udp_max_queries 0..2, "
                            "rotate on/off, USEVC on/off, 0/1 existing connection (UDP with use count 0..3, or TCP) to the "
                            "best server carrying 0/1 sibling request; every socket, cookie and serialisation failure; "
                            "callbacks may re-enter ares_cancel (depth 1); then a final ares_cancel" % nsrv))
    return J
