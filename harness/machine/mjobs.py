"""Shared job definitions for the send-machine harnesses (imported by C01/C05/C06/C07/C09/C10 jobs.py)."""
LIB = ["src/lib/ares_library_init.c", "src/lib/dsa/ares_llist.c", "src/lib/dsa/ares_array.c", "src/lib/str/ares_buf.c",
       "src/lib/str/ares_str.c", "src/lib/util/ares_math.c", "src/lib/ares_conn.c", "src/lib/ares_socket.c",
       "src/lib/ares_close_sockets.c", "src/lib/ares_cancel.c", "src/lib/ares_metrics.c", "src/lib/ares_send.c",
       "src/lib/util/ares_timeval.c", "src/lib/ares_timeout.c"]
SUP = ["vp_rt.c", "valloc.c", "memloops.c", "slist_ref.c", "szvp_ref.c", "asvp_ref.c", "lock_ghost.c", "dnsrec_abs.c",
       "vsock.c", "world.c"]
ASSUMPTIONS = ["reference containers slist_ref / szvp_ref / asvp_ref (real ones checked against the same contracts in C19)",
               "virtual sockets (vsock.c) with all-or-nothing transfers in the machine harnesses",
               "abstract DNS records; ares_dns_write_buf_tcp = append a 3-byte frame or fail; cookie/qcache neighbours return "
               "any documented status; clock is a harness variable; RNG returns arbitrary bytes",
               "callbacks re-enter ares_cancel at depth 1 only"]

def sendquery_jobs(tier):
    J = []
    for nsrv in (1, 2):
        for usevc in (0, 1):
            for existing in (0, 1, 2):
                for sibling in (0, 1):
                    for pre in (0, 1):
                        if sibling and not existing:
                            continue
                        if existing == 1 and usevc:
                            continue  # a UDP connection is irrelevant to a TCP-only channel
                        if sibling and existing == 2 and not usevc:
                            continue  # the request would not use the TCP connection its sibling is on
                        if pre and (not existing or sibling or nsrv == 2):
                            continue
                        if sibling and nsrv == 2:
                            continue  # measured: no verdict within 2400 CPU s (sendquery_srv2_*_sib1); sibling effects are server-count independent (srv1 jobs)
                        if pre and existing == 2 and not usevc:
                            continue
                        J.append(dict(
                            name="sendquery_srv%d_vc%d_ex%d_sib%d%s" % (nsrv, usevc, existing, sibling, "_pre" if pre else ""),
                            harness="../machine/sendquery.c",
                            defines=["-DNSRV=%d" % nsrv, "-DUSEVC=%d" % usevc, "-DEXISTING=%d" % existing,
                                     "-DSIBLING=%d" % sibling, "-DPREATTACHED=%d" % pre],
                            real=LIB, support=SUP, unwind=8, backend="cadical", timeout=2400, mem_gb=16,
                            replace=["ares_requeue_query"], replace_with=["rq_stub.c"],
                            unwindset=["ares_send_query:2", "ares_requeue_query:4", "end_query:3", "ares_close_connection:3",
                                       "handle_conn_error:3", "ares_cancel:3", "M_user_cb:3", "ares_free_query:4",
                                       "ares_cancel.0:4", "ares_htable_szvp_get.0:5", "ares_htable_szvp_remove.0:5",
                                       "ares_htable_szvp_insert.0:5", "ares_htable_szvp_insert.1:5", "ares_htable_asvp_get.0:7",
                                       "ares_htable_asvp_remove.0:7", "ares_htable_asvp_insert.0:7", "ares_htable_asvp_insert.1:7",
                                       "ares_requeue_queries.0:3", "ares_llist_clear.0:4", "memcpy.0:30", "memset.0:30"],
                            witnesses=["end"],
                            bound="ONE level of ares_send_query (nested requeue = contract stub) on %d server(s) with failure "
                                  "counters 0..2, tries 1..3, udp_max_queries 0..2, rotate on/off, USEVC=%d, existing connection to "
                                  "the best server: %s, sibling request on it: %d, request already in flight on it: %d; every socket, "
                                  "cookie and serialisation failure; sibling callbacks may re-enter ares_cancel (depth 1)"
                                  % (nsrv, usevc, ["none", "UDP (use count 0..3)", "TCP"][existing], sibling, pre)))
    return J

def sendquery_oom_jobs(tier):
    """One ares_send_query level whose k-th allocation fails: a request that stays live must be in flight WITH a deadline
    and a connection entry, otherwise it completed once with a failure."""
    J = []
    base = dict((j["name"], j) for j in sendquery_jobs(tier))
    for nm, ks in (("sendquery_srv1_vc0_ex1_sib0", (1, 2, 3, 4)), ("sendquery_srv1_vc1_ex2_sib0", (1, 2, 3, 4))):
        for k in ks:
            j = dict(base[nm])
            j["name"] = nm + "_oom%d" % k
            j["defines"] = j["defines"] + ["-DM_OOM=%d" % k]
            j["kf_group"] = "sendquery_oom"
            j["bound"] = j["bound"] + "; allocation number %d of the attempt fails" % k
            J.append(j)
    return J

UW = ["end_query:3", "ares_close_connection:3", "handle_conn_error:3", "ares_cancel:3", "M_user_cb:3", "ares_free_query:4",
      "ares_cancel.0:4", "ares_htable_szvp_get.0:5", "ares_htable_szvp_remove.0:5", "ares_htable_szvp_insert.0:5",
      "ares_htable_szvp_insert.1:5", "ares_htable_asvp_get.0:7", "ares_htable_asvp_remove.0:7", "ares_htable_asvp_insert.0:7",
      "ares_htable_asvp_insert.1:7", "ares_requeue_queries.0:3", "ares_llist_clear.0:4", "memcpy.0:30", "memset.0:30"]

def requeue_jobs(tier):
    J = []
    for nsrv in (1, 2):
        J.append(dict(name="requeue_step_srv%d" % nsrv, harness="../machine/requeue_step.c", defines=["-DNSRV=%d" % nsrv],
                      real=LIB, support=SUP, unwind=8, backend="cadical", timeout=1800, mem_gb=16,
                      replace=["ares_send_query"], replace_with=["sq_stub.c"], unwindset=UW + ["ares_send_query:4", "ares_requeue_query:2"],
                      witnesses=["end", "resent", "deferred", "budget exhausted"],
                      bound="ONE ares_requeue_query (nested send = contract stub) for a request with try_count 0..3e6, tries "
                            "1..1e6, %d server(s), no_retries on/off, any incoming/previous status, inc_try_count on/off, "
                            "immediate or deferred (requeue array)" % nsrv))
    return J

def requeue_oom_jobs(tier):
    """C14: ONE deferred/immediate ares_requeue_query whose k-th allocation fails."""
    J = []
    for k in (1, 2):
        J.append(dict(name="requeue_step_oom%d" % k, harness="../machine/requeue_step.c", defines=["-DNSRV=2", "-DM_OOM=%d" % k],
                      real=LIB, support=SUP, unwind=8, timeout=1800, mem_gb=16, kf_group="answer_step_oom",
                      replace=["ares_send_query"], replace_with=["sq_stub.c"], unwindset=UW + ["ares_send_query:4", "ares_requeue_query:2"],
                      witnesses=["end", "deferral failed", "budget exhausted"],
                      bound="ONE DEFERRED ares_requeue_query as in requeue_step_srv2 whose allocation number %d fails (the requeue array "
                            "creation / its first growth)" % k))
    return J

def timeouts_jobs(tier):
    J = []
    for nq in (1, 2):
        J.append(dict(name="timeouts_step_nq%d" % nq, harness="../machine/timeouts_step.c", defines=["-DNQ=%d" % nq],
                      real=LIB, support=SUP, unwind=8, backend="cadical", timeout=1800, mem_gb=16,
                      replace=["ares_requeue_query"], replace_with=["rq_stub.c"], unwindset=UW + ["ares_send_query:2", "ares_requeue_query:4"],
                      witnesses=["end", "none expired"] + (["both expired"] if nq == 2 else []),
                      bound="ONE process_timeouts with %d request(s) in flight, ARBITRARY deadlines and clock (microsecond "
                            "resolution); nested requeue = contract stub" % nq))
    return J

def answer_jobs(tier, kf_group="answer_step", owner=True):
    """owner=True (C05): the stale-connection conjunct is asserted / handled as a known finding of C05;
    owner=False (C06, C20 reuse the same step for their own rules): that one assertion is compiled out."""
    J = []
    for rx_tcp in (0, 1):
        for on_other in (0, 1):
            J.append(dict(name="answer_step_rx%s_%s" % ("tcp" if rx_tcp else "udp", "stale" if on_other else "current"),
                      harness="../machine/answer_step.c",
                      defines=["-DRX_TCP=%d" % rx_tcp, "-DON_OTHER=%d" % on_other] + ([] if owner else ["-DKF_stale_conn_reply"]),
                      real=LIB, support=SUP, unwind=8, backend="cadical", timeout=1800, mem_gb=16,
                      kf_group=(kf_group + "_stale") if (on_other and owner) else None,
                      replace=["ares_requeue_query"], replace_with=["rq_stub.c"], unwindset=UW + ["ares_send_query:2", "ares_requeue_query:4"],
                      witnesses=["end", "dropped"] + ([] if on_other else ["delivered", "failover", "edns downgrade"] +
                                                      ([] if rx_tcp else ["tcp upgrade"])),
                      bound="ONE process_answer: response arrives on a %s connection while the request is assigned to %s; "
                            "symbolic id match, question name {same, other case, other}, type match, TC, rcode 0..5, OPT in "
                            "request/response, option count, cookie verdict, parse failure, zero length, channel flags "
                            "0x20/IGNTC/NOCHECKRESP" % ("TCP" if rx_tcp else "UDP", "ANOTHER connection (stale reply)" if on_other
                                                       else "that connection")))
    return J

def answer_oom_jobs(tier):
    """C14 on the answer path: ONE process_answer whose k-th allocation fails (k concrete per job)."""
    J = []
    for rx_tcp in (0, 1):
        for k in (1, 2, 3, 4):
            J.append(dict(name="answer_step_oom%d_rx%s" % (k, "tcp" if rx_tcp else "udp"), harness="../machine/answer_step.c",
                          defines=["-DRX_TCP=%d" % rx_tcp, "-DON_OTHER=0", "-DKF_stale_conn_reply", "-DM_OOM=%d" % k],
                          real=LIB, support=SUP, unwind=8, backend="cadical", timeout=1800, mem_gb=16, kf_group="answer_step_oom",
                          replace=["ares_requeue_query"], replace_with=["rq_stub.c"], unwindset=UW + ["ares_send_query:2", "ares_requeue_query:4"],
                          witnesses=["end", "dropped"] + (["request failed with ENOMEM"] if k <= 2 else []),
                          bound="ONE process_answer on a %s connection (request assigned to it) whose allocation number %d fails; "
                                "same symbolic response as answer_step_*" % ("TCP" if rx_tcp else "UDP", k)))
    return J

def health_jobs(tier):
    J = []
    names = ["increment_failures", "set_good", "probe", "random_best"]
    for op in range(4):
        for nsrv in ((2, 3) if op != 2 else (2, 3)):
            J.append(dict(name="health_%s_srv%d" % (names[op], nsrv), harness="../machine/health_step.c",
                      defines=["-DOP=%d" % op, "-DNSRV=%d" % nsrv], real=[l for l in LIB if not l.endswith("ares_send.c")],
                      support=SUP, unwind=8, backend="cadical", timeout=1800, mem_gb=8, unwindset=UW,
                      witnesses=["end"] + (["probe sent", "no probe", "probe ended", "probe completed later"] if op == 2 else []),
                      kf_group="health_probe" if op == 2 else None,
                      bound="ONE %s on %d servers with failure counters 0..3, probe-pending flags and retry times symbolic, "
                            "retry chance 0..3, retry delay 0..100 s" % (names[op], nsrv)))
    return J

def wake_jobs(tier):
    J = []
    for usevc, existing in ((0, 0), (0, 1), (1, 0), (1, 2)):
        J.append(dict(name="wake_step_%s_%s" % ("tcp" if usevc else "udp", ["fresh", "idleudp", "idletcp"][existing]),
                      harness="../machine/wake_step.c", defines=["-DUSEVC=%d" % usevc, "-DEXISTING=%d" % existing],
                      real=LIB, support=SUP, unwind=8, backend="cadical", timeout=1800, mem_gb=8,
                      kf_group="wake_step_idle" if existing else None,
                      replace=["ares_requeue_query"], replace_with=["rq_stub.c"], unwindset=UW + ["ares_send_query:2", "ares_requeue_query:4"],
                      witnesses=["end"] + (["fresh connection"] if not existing else []),
                      bound="ONE ares_send_query (%s) with the event thread's callbacks as wake recorders, %s, nothing pending "
                            "before the call; every socket outcome" % ("TCP" if usevc else "UDP",
                            ["no connection yet", "an idle kept-open UDP connection", "an idle kept-open TCP connection"][existing])))
    return J

def cleanup_jobs(tier):
    J = []
    # ("uut", "ut") needs 5 requests: beyond the capacity of the reference qid table (szvp_ref) - not registered
    shapes = [("u", None), ("t", None), ("ut", None)] + ([("u", "t"), ("ut", "u")] if tier != "quick" else [])
    for op, opname in ((0, "check_cleanup"), (1, "close_sockets")):
        for s0, s1 in shapes:
            if op == 0 and s1 is not None:
                continue  # measured: the two-server shapes of ares_check_cleanup_conns end without a verdict (solver out of 8 GB)
            J.append(dict(name="%s_%s_%s" % (opname, s0, s1 if s1 is not None else "x"), harness="../machine/cleanup_step.c",
                      defines=["-DOP=%d" % op, '-DSHAPE0="%s"' % s0, '-DSHAPE1="%s"' % (s1 or ""), "-DNS=%d" % (2 if s1 is not None else 1)],
                      real=LIB, support=SUP, unwind=8, backend="cadical", timeout=1800, mem_gb=8,
                      replace=["ares_requeue_query"], replace_with=["rq_stub.c"], unwindset=UW + ["ares_send_query:2", "ares_requeue_query:5"],
                      witnesses=["end"],
                      bound="ONE %s on the connection set server0=[%s] server1=[%s] (u=UDP t=TCP); each connection idle or "
                            "carrying a request, use count 0..3, udp_max_queries 0..2, stay-open on/off, server failures 0..1"
                            % ("ares_check_cleanup_conns" if op == 0 else "ares_close_sockets(server0)", s0, s1 if s1 is not None else "-")))
    return J

def send_early_jobs(tier):
    return [dict(name="send_early", harness="../machine/send_early.c",
                 real=[l for l in LIB if not l.endswith("ares_send.c")], support=SUP, unwind=8, backend="cadical", timeout=1800,
                 mem_gb=8, replace=["ares_send_query"], replace_with=["sq_stub.c"], unwindset=UW,
                 witnesses=["end", "failed", "completed synchronously", "pending"],
                 bound="ONE ares_send_nolock: 0/1 servers, cache miss/hit/error, NOCACHE on/off, duplicate failing with any "
                       "status, 0x20 on/off (name rewrite may fail), USEVC on/off, ANY single allocation failure (1st..6th), any "
                       "outcome of the first send attempt (contract stub)")]

def close_jobs(tier):
    J = []
    for nq in (2,):   # nq=3: no verdict (solver out of 8 GB)
        J.append(dict(name="close_conn_nq%d_reentrant" % nq, harness="../machine/close_step.c", defines=["-DNQ=%d" % nq],
                      real=LIB, support=SUP, unwind=8, backend="cadical", timeout=1800, mem_gb=8,
                      replace=["ares_requeue_query"], replace_with=["rq_stub.c"], unwindset=UW + ["ares_send_query:2", "ares_requeue_query:5"],
                      witnesses=["end", "callback cancelled during teardown"],
                      bound="ONE ares_close_connection of a connection carrying %d requests; each requeued request may be completed "
                            "through its callback, and callbacks may call ares_cancel (depth 1); then a final ares_cancel" % nq))
    return J

def readanswers_jobs(tier):
    J = []
    for usevc in (0, 1):
        J.append(dict(name="readanswers_followup_%s" % ("tcp" if usevc else "udp"), harness="../machine/readanswers_step.c",
                      defines=["-DUSEVC=%d" % usevc, "-DVP_REALLOC_SIZES=32,64", "-DVP_REALLOC_ARRAYCOPY"],
                      real=LIB, support=SUP, unwind=8, backend="cadical", timeout=1800, mem_gb=8, kf_group="readanswers_followup",
                      replace=["ares_requeue_query"], replace_with=["rq_stub.c"], unwindset=UW + ["ares_send_query:3", "ares_requeue_query:5", "memmove.0:34", "memmove.1:34"],
                      witnesses=["end", "follow-up request started from the callback"],
                      bound="ONE read_answers with one complete frame answering the request in flight on a %s connection; the "
                            "completion callback may start a follow-up request whose send (one level, every socket/cookie/"
                            "serialisation failure) may land on the connection under read" % ("TCP" if usevc else "UDP")))
    return J

def flush_requeue_jobs(tier):
    return [dict(name="flush_requeue_two", harness="../machine/flush_requeue.c",
                 defines=["-DVP_REALLOC_SIZES=32,64", "-DVP_REALLOC_ARRAYCOPY"],
                 real=LIB, support=SUP, unwind=8, backend="cadical", timeout=1800, mem_gb=8,
                 replace=["ares_send_query"], replace_with=["sq_stub.c"],
                 unwindset=UW + ["ares_send_query:4", "ares_requeue_query:3", "memmove.0:34", "memmove.1:34"],
                 witnesses=["end", "both resent", "first resend failed, second still sent"],
                 bound="ONE read_answers over two complete frames, each a truncated UDP answer to one of two requests in flight: "
                       "both are deferred to the resend array (real) and flushed; every send outcome of the contract stub "
                       "(in flight / completed with any failure status)")]

def write_event_jobs(tier):
    return [dict(name="write_event_tcp", harness="../machine/write_event.c",
                 defines=["-DVP_REALLOC_SIZES=32,64", "-DVP_REALLOC_ARRAYCOPY"],
                 real=LIB, support=SUP, unwind=8, backend="cadical", timeout=1800, mem_gb=8, fs_array=8,
                 replace=["ares_requeue_query"], replace_with=["rq_stub.c"],
                 unwindset=UW + ["ares_send_query:2", "ares_requeue_query:5", "memmove.0:34", "memmove.1:34"],
                 witnesses=["end", "closed on write error", "still open"],
                 bound="ONE process_write on a TCP connection: announced interest READ or READ|WRITE, connected or connecting, "
                       "0/1 queued frame, 0/1 request in flight; the socket accepts any 1..len bytes, would-blocks or refuses")]

def flush_jobs(tier):
    return [dict(name="readanswers_flush_two", harness="../machine/flush_step.c",
                 defines=["-DVP_REALLOC_SIZES=32,64", "-DVP_REALLOC_ARRAYCOPY"],
                 real=LIB, support=SUP, unwind=8, backend="cadical", timeout=1800, mem_gb=8,
                 replace=["ares_send_query"], replace_with=["sq_stub.c"],
                 unwindset=UW + ["ares_send_query:4", "ares_requeue_query:3", "memmove.0:34", "memmove.1:34"],
                 witnesses=["end"],
                 bound="ONE read_answers with two frames that both defer a resend (TC on UDP); the resends are contract stubs "
                       "returning any status")]

def destroy_jobs(tier):
    J = []
    # two-server shapes ("u","t"), ("ut","u"): measured no verdict (solver out of 8 GB) - not registered; the teardown of
    # one server is independent of the others (ares_destroy_servers_state walks them one by one)
    shapes = [("", None), ("u", None), ("ut", None)]
    for s0, s1 in shapes:
        J.append(dict(name="destroy_%s_%s" % (s0 or "none", s1 if s1 is not None else "x"), harness="../machine/destroy_step.c",
                      defines=['-DSHAPE0="%s"' % s0, '-DSHAPE1="%s"' % (s1 or ""), "-DNS=%d" % (2 if s1 is not None else 1)],
                      real=LIB + ["src/lib/ares_destroy.c"], support=SUP, unwind=8, backend="cadical", timeout=1800, mem_gb=8,
                      replace=["ares_requeue_query"], replace_with=["rq_stub.c"], unwindset=UW + ["ares_send_query:2", "ares_requeue_query:5"],
                      witnesses=["end"],
                      bound="ONE ares_destroy: server0=[%s] server1=[%s] (u=UDP t=TCP), each connection idle or carrying a request, "
                            "0/1 request not in flight, stay-open on/off, pending reload thread handle or none"
                            % (s0, s1 if s1 is not None else "-")))
    return J
