/* ghost state of the send-machine harnesses, shared with the contract-stub TUs that replace function bodies */
#ifndef MACHINE_EXT_H
#define MACHINE_EXT_H
#include "ares_private.h"
#define MAXTOK 6
extern int            vp_lock_depth;
extern ares_channel_t M_ch;
extern ares_timeval_t M_now;
extern int            M_cb_count[MAXTOK];
extern ares_status_t  M_cb_status[MAXTOK];
extern int            M_ntok, M_depth, M_reenter_cancel, M_reentered, M_cookie_validate_rv;
extern size_t         M_writes;
extern ares_conn_t   *M_last_write_conn;
/* contract-stub recorders */
#define M_MAXCALLS 4
extern int            RQ_calls;                    /* ares_requeue_query stub */
extern ares_query_t  *RQ_query[M_MAXCALLS];
extern ares_status_t  RQ_status[M_MAXCALLS];
extern ares_bool_t    RQ_inc[M_MAXCALLS];
extern int            RQ_deferred[M_MAXCALLS];     /* requeue array given */
extern size_t         RQ_srvfail[M_MAXCALLS];      /* failure count of the server the request was on, at requeue time */
extern int            RQ_resent[MAXTOK];           /* token left "live, to be re-sent" by the stub */
extern int            SQ_calls;                    /* ares_send_query stub */
extern ares_query_t  *SQ_query[M_MAXCALLS];
extern ares_server_t *SQ_server[M_MAXCALLS];
extern int            SQ_inflight[MAXTOK];           /* token left in flight (abstractly) by the stub */
#endif
