/* C01/C10: ares_destroy() from an ARBITRARY valid channel state: 1..2 servers, 0..2 connections each carrying 0..1
 * request, plus 0..1 request not in flight.  Every request completes exactly once with ARES_EDESTRUCTION, nothing
 * completes afterwards, every descriptor is closed exactly once with the application told to stop watching exactly once,
 * and every allocation of the channel is released (allocator ledger back to zero).
 * Real: ares_destroy, ares_destroy_servers_state, ares_destroy_server (ares_destroy.c), ares_close_sockets,
 * ares_close_connection, ares_free_query, ares_buf/llist destroy.  Stubs: event thread / config watcher / reload thread
 * join / RNG state / hosts file / qcache / threading teardown (recorders), reference containers. */
#include "machine.h"
#include "event/ares_event.h"

static int joined, evt_destroyed, threading_destroyed;
void ares_event_thread_destroy(ares_channel_t *channel) { (void)channel; evt_destroyed++; }
void ares_event_configchg_destroy(ares_event_configchg_t *c) { (void)c; }
ares_status_t ares_thread_join(ares_thread_t *thread, void **rv) { (void)thread; (void)rv; joined++; return ARES_SUCCESS; }
void ares_destroy_rand_state(ares_rand_state *s) { (void)s; }
void ares_hosts_file_destroy(ares_hosts_file_t *hf) { (void)hf; }
void ares_qcache_destroy(ares_qcache_t *c) { (void)c; }
void ares_channel_threading_destroy(ares_channel_t *channel) { (void)channel; VP_ASSERT(vp_lock_depth == 0, "lock released before it is destroyed"); threading_destroyed++; }

static void chan_free(void *p)
{
  if (p == (void *)&M_ch) return; /* the harness channel object is static */
  vp_free(p);
}
static void destroy_cb(void *arg, ares_status_t status, size_t timeouts, const ares_dns_record_t *dnsrec)
{
  int *cnt = arg;
  (void)timeouts; (void)dnsrec;
  (*cnt)++;
  VP_ASSERT(*cnt == 1, "completion callback invoked at most once per request");
  VP_ASSERT(threading_destroyed == 0, "no callback after the channel has been torn down");
  M_cb_status[cnt - M_cb_count] = status;
}

void harness(void)
{
  static const char *shape[2] = { SHAPE0, SHAPE1 };
  ares_socket_t      fds[4];
  int                told[4], nconn = 0, i, ns = NS;
  static int         thr;

  M_init();
  ares_library_init_mem(0, vp_malloc, chan_free, vp_realloc);
  M_ch.flags = vp_bool() ? ARES_FLAG_STAYOPEN : 0;
  for (i = 0; i < ns; i++) {
    int            c;
    ares_server_t *s = world_add_server(&M_ch, (size_t)i, vp_range(0, 1));
    for (c = 0; shape[i][c] != 0; c++) {
      ares_conn_t *cn = world_add_conn(&M_ch, s, shape[i][c] == 't');
      fds[nconn] = cn->fd;
      if (vp_bool()) { ares_query_t *q = M_new_query(); q->callback = destroy_cb; M_attach(q, cn, 1005); }
      told[nconn] = vsock[cn->fd].told_watch;
      nconn++;
    }
  }
  if (vp_bool()) { ares_query_t *q = M_new_query(); q->callback = destroy_cb; }
  if (vp_bool()) M_ch.reinit_thread = (ares_thread_t *)(void *)&thr;

  ares_destroy(&M_ch);

  for (i = 0; i < M_ntok; i++) {
    VP_ASSERT(M_cb_count[i] == 1, "every outstanding request completes exactly once at destruction");
    VP_ASSERT(M_cb_status[i] == ARES_EDESTRUCTION, "with the destroyed status");
  }
  for (i = 0; i < nconn; i++) {
    VP_ASSERT(vsock[fds[i]].state == 2 && vsock[fds[i]].closes == 1, "no socket survives channel destruction; each closed exactly once");
    VP_ASSERT(vsock[fds[i]].told_watch == 0 && vsock[fds[i]].stop_calls == (told[i] ? 1 : 0), "told to stop watching exactly once");
  }
  VP_ASSERT(vsock_open_count == 0, "no descriptor left open");
  VP_ASSERT(RQ_calls == 0, "destruction never re-sends a request");
  VP_ASSERT(vp_alloc_live == 0, "every allocation belonging to the channel is released");
  VP_ASSERT(vp_lock_depth == 0, "channel lock balanced");
  if (M_ntok > 0) VP_WITNESS("requests destroyed");
  VP_WITNESS("end");
}
