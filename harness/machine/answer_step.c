/* C05 (+ C20 truncation rule, C06 protocol-mandated resends): ONE process_answer() for an ARBITRARY parsed response
 * arriving on a connection while a request is in flight.
 * Real: process_answer, same_questions, issue_might_be_edns, rewrite_without_edns, ares_append_requeue, end_query,
 * server_set_good / server_increment_failures (ares_process.c).  The record layer is abstract: ares_dns_parse returns
 * the harness-built abstract response (symbolic id, question name kind, type/class, TC, rcode, OPT presence, answer
 * count); ares_cookie_validate returns a symbolic verdict; nested ares_requeue_query is its contract (rq_stub.c).
 * Oracle: a response is delivered / cached / credited to the server ONLY IF id, question (case rule per 0x20 and
 * transport) and cookie verdict all match AND it arrived on the connection the request is assigned to. */
#define M_NO_QCACHE_INSERT
#include "machine.h"

static ares_dns_record_t       *M_resp;       /* what the parser stub hands out */
static int                      M_parse_fails;
static int                      M_cached;
static const ares_dns_record_t *M_delivered_rec;

ares_status_t ares_dns_parse(const unsigned char *buf, size_t buf_len, unsigned int flags, ares_dns_record_t **dnsrec)
{
  (void)buf; (void)buf_len; (void)flags;
  if (M_parse_fails) { *dnsrec = NULL; return ARES_EBADRESP; }
  *dnsrec = M_resp;
  return ARES_SUCCESS;
}
/* records what the cache is offered; declines ownership */
ares_status_t ares_qcache_insert(ares_channel_t *ch, const ares_timeval_t *now, const ares_query_t *q, ares_dns_record_t *r)
{ (void)ch; (void)now; (void)q; (void)r; M_cached++; return ARES_ENOTFOUND; }
static void deliver_cb(void *arg, ares_status_t status, size_t timeouts, const ares_dns_record_t *dnsrec)
{
  int *cnt = arg;
  (void)timeouts;
  (*cnt)++;
  VP_ASSERT(*cnt == 1, "completion callback invoked at most once per request");
  M_cb_status[cnt - M_cb_count] = status;
  M_delivered_rec               = dnsrec;
}

void harness(void)
{
  ares_server_t     *srv;
  ares_conn_t       *connA, *connB;
  ares_query_t      *q;
  int                tok, on_other, id_match, name_kind, tq_match, tc, req_opt, resp_opt, cookie_bad, rx_tcp, q_tcp;
  size_t             req_opts, fail0, alen;
  ares_dns_rcode_t   rcode;
  ares_status_t      st;
  ares_array_t      *requeue = NULL;
  unsigned char      pkt[2] = { 0, 0 };
  int                accepted, case_ok, edns_retry, tcp_retry, failover, deliver, k, nrq;
  static const char *names[3] = { "ab", "aB", "cd" };
  unsigned short     qid;

  M_init();
  M_ch.flags = ARES_FLAG_STAYOPEN | (vp_bool() ? ARES_FLAG_DNS0x20 : 0) | (vp_bool() ? ARES_FLAG_IGNTC : 0) |
               (vp_bool() ? ARES_FLAG_NOCHECKRESP : 0);
  srv    = world_add_server(&M_ch, 0, vp_range(0, 2));
  rx_tcp = RX_TCP;
  connA  = world_add_conn(&M_ch, srv, rx_tcp);       /* the connection the packet arrives on */
  connB  = world_add_conn(&M_ch, srv, !rx_tcp);      /* another connection to the same server */
  q      = M_new_query();
  tok    = M_ntok - 1;
  qid    = q->qid;
  q->callback = deliver_cb;
  vp_absrec_set_question(q->query, names[0], 1, 1);
  req_opt  = vp_bool();
  req_opts = vp_range(0, 1);
  vp_absrec_set_opt(q->query, req_opt, req_opts);
  on_other = ON_OTHER;                               /* request currently assigned to connB (stale reply on connA) */
  M_attach(q, on_other ? connB : connA, 1005);
  q_tcp = (q->using_tcp == ARES_TRUE);
  fail0 = srv->consec_failures;

  /* the response */
  id_match   = vp_bool();
  name_kind  = (int)vp_range(0, 2);
  tq_match   = vp_bool();
  tc         = vp_bool();
  resp_opt   = vp_bool();
  rcode      = (ares_dns_rcode_t)vp_range(0, 5);
  cookie_bad = vp_bool();
  M_resp     = vp_absrec_new(id_match ? qid : (unsigned short)(qid + 1));
  vp_absrec_set_question(M_resp, names[name_kind], tq_match ? 1 : 28, 1);
  M_resp->flags = tc ? ARES_FLAG_TC : 0;
  M_resp->rcode = rcode;
  vp_absrec_set_opt(M_resp, resp_opt, 0);
  vp_absrec_set_ancount(M_resp, vp_range(0, 1));
  M_cookie_validate_rv = cookie_bad;
  M_parse_fails        = vp_bool();
  alen                 = vp_range(0, 2);

#ifdef M_OOM
  /* C14: the M_OOM-th allocation inside the step fails */
  vp_alloc_calls   = 0; /* harness-owned counter: restart it so that the failing index is a constant */
  vp_alloc_fail_at = M_OOM; /* concrete per job: a symbolic failing allocation ran the solver out of 16 GB */
#endif
  st = process_answer(&M_ch, pkt, alen, connA, &M_now, &requeue);
#ifdef M_OOM
  vp_alloc_fail_at = 0;
#endif

  /* ---------- reference ---------- */
  case_ok  = (name_kind == 0) || (name_kind == 1 && !((M_ch.flags & ARES_FLAG_DNS0x20) && !q_tcp));
  accepted = alen != 0 && !M_parse_fails && id_match && tq_match && case_ok && !cookie_bad;
  /* C05: "only if it arrived on the connection the query is currently assigned to".  This single conjunct is a known
   * finding of the pinned tree (process_answer never compares query->conn with conn); with -DKF_stale_conn_reply ONLY
   * this assertion is switched off - every other rule below is still checked for stale replies too, treating them as
   * the code does (as if they had arrived on the assigned connection). */
#ifdef KFONLY_stale_conn_reply
  VP_ASSUME(accepted && on_other);
#endif
#ifndef KF_stale_conn_reply
  if (on_other && accepted) {
    VP_ASSERT(M_cb_count[tok] == 0 && M_cached == 0 && RQ_calls == 0 && ares_array_len(requeue) == 0 && srv->consec_failures == fail0,
              "FINDING stale_conn_reply: a reply arriving on a connection the request is no longer assigned to supplies nothing to it");
  }
#endif
#ifdef M_OOM
  /* C14: the allocation failure may fail the REQUEST, with exactly one ARES_ENOMEM completion and the request released
   * (q must not be touched any more); every other outcome is judged by the ordinary rules below. */
  if (st == ARES_ENOMEM && M_cb_count[tok] != 0) {
    VP_ASSERT(accepted, "only an accepted response can fail the request");
    VP_ASSERT(M_cb_count[tok] == 1 && M_cb_status[tok] == ARES_ENOMEM, "the affected request reports the allocation failure, once");
    VP_ASSERT(ares_htable_szvp_get_direct(M_ch.queries_by_qid, qid) == NULL && ares_array_len(requeue) == 0 && M_cached == 0,
              "the failed request is gone: not indexed, not queued for resend, not cached");
    VP_WITNESS("request failed with ENOMEM");
    goto out;
  }
#endif
  nrq = 0;
  for (k = 0; k < RQ_calls; k++)
    if (RQ_query[k] == q) nrq++;
  if (!accepted) {
    VP_ASSERT(M_cb_count[tok] == 0, "a non-matching / unauthenticated packet is never delivered");
    VP_ASSERT(M_cached == 0, "a non-matching / unauthenticated packet never enters the cache");
    VP_ASSERT(nrq == 0 && ares_array_len(requeue) == 0, "a non-matching packet never causes a resend");
    VP_ASSERT(srv->consec_failures == fail0, "a non-matching packet neither credits nor demotes the server");
    VP_ASSERT(q->conn == (on_other ? connB : connA) && q->node_queries_to_conn != NULL && q->node_queries_by_timeout != NULL,
              "the request stays in flight, untouched");
    VP_ASSERT(vp_absrec_has_opt(q->query) == req_opt, "the request record is untouched");
    VP_ASSERT(st == (alen != 0 && M_parse_fails ? ARES_EBADRESP : ARES_SUCCESS), "only an unparsable packet is an error for the connection");
    VP_WITNESS("dropped");
  } else {
    edns_retry = (rcode == ARES_RCODE_FORMERR) && req_opt && (!resp_opt || req_opts > 0);
    tcp_retry  = !edns_retry && tc && !rx_tcp && !(M_ch.flags & ARES_FLAG_IGNTC);
    failover   = !edns_retry && !tcp_retry && !(M_ch.flags & ARES_FLAG_NOCHECKRESP) &&
               (rcode == ARES_RCODE_SERVFAIL || rcode == ARES_RCODE_NOTIMP || rcode == ARES_RCODE_REFUSED);
    deliver = !edns_retry && !tcp_retry && !failover;
    if (edns_retry) {
      VP_ASSERT(M_cb_count[tok] == 0 && M_cached == 0, "FORMERR to an EDNS request is not delivered");
      VP_ASSERT(!vp_absrec_has_opt(q->query), "one EDNS downgrade: the OPT RR is removed, so it cannot repeat");
      VP_ASSERT(st == ARES_ENOMEM || ares_array_len(requeue) == 1, "the downgraded request is queued for one resend");
      VP_ASSERT(nrq == 0, "the downgrade does not consume retry budget");
      VP_WITNESS("edns downgrade");
    } else if (tcp_retry) {
      VP_ASSERT(M_cb_count[tok] == 0 && M_cached == 0, "a truncated UDP answer is not delivered (unless truncation is ignored)");
      VP_ASSERT(q->using_tcp == ARES_TRUE, "a truncated UDP answer switches the request to TCP, so it cannot repeat");
      VP_ASSERT(st == ARES_ENOMEM || ares_array_len(requeue) == 1, "the request is queued for one resend over TCP");
      VP_ASSERT(nrq == 0, "the TCP upgrade does not consume retry budget");
      VP_WITNESS("tcp upgrade");
    } else if (failover) {
      VP_ASSERT(M_cached == 0, "SERVFAIL/NOTIMP/REFUSED is never cached");
      VP_ASSERT(nrq == 1, "SERVFAIL/NOTIMP/REFUSED is retried through the budgeted requeue");
      VP_ASSERT(RQ_inc[0] == ARES_TRUE && RQ_deferred[0] && RQ_status[0] != ARES_SUCCESS, "it consumes retry budget and is deferred past the read loop");
      VP_ASSERT(srv->consec_failures == fail0 + 1, "the server is demoted");
      VP_WITNESS("failover");
    } else {
      VP_ASSERT(deliver, "case analysis complete");
      VP_ASSERT(M_cb_count[tok] == 1 && M_cb_status[tok] == ARES_SUCCESS && M_delivered_rec == M_resp, "the matching response is delivered, once");
      VP_ASSERT(M_cached == 1, "the delivered response is offered to the cache");
      VP_ASSERT(srv->consec_failures == 0, "the server is restored to full priority");
      VP_ASSERT(nrq == 0 && ares_array_len(requeue) == 0, "a delivered response causes no resend");
      if (tc) VP_WITNESS("truncated answer delivered (TCP or IGNTC)");
      VP_WITNESS("delivered");
    }
    VP_ASSERT(st == ARES_SUCCESS || st == ARES_ENOMEM, "an accepted response never tears the connection down");
  }
  /* no orphan: a request that has not completed is either still in flight on a connection (so the connection's error
   * handling or its deadline will retry or fail it) or recorded for the resend flush (or handed to ares_requeue_query,
   * whose own contract is obligation O2).  Otherwise nothing would ever retry or fail it. */
#ifdef KFONLY_requeue_oom_orphan
  VP_ASSUME(M_cb_count[tok] == 0 && nrq == 0 && q->conn == NULL);
#endif
#ifndef KF_requeue_oom_orphan
  if (M_cb_count[tok] == 0 && nrq == 0) {
    int queued = 0;
    for (k = 0; k < (int)ares_array_len(requeue) && k < 2; k++) {
      const ares_requeue_t *e = ares_array_at_const(requeue, (size_t)k);
      if (e != NULL && e->qid == qid) queued = 1;
    }
    VP_ASSERT((q->conn != NULL && q->node_queries_to_conn != NULL && q->node_queries_by_timeout != NULL) || queued,
              "FINDING requeue_oom_orphan: an uncompleted request is still in flight or queued for resend, never dropped from both");
  }
#endif
#ifdef M_OOM
out:
#endif
  VP_ASSERT(vsock[connA->fd].state == 1 && vsock[connB->fd].state == 1, "process_answer never closes a connection");
  VP_ASSERT(ares_conn_from_fd(&M_ch, connA->fd) == connA, "the connection under read stays registered");
  ares_array_destroy(requeue);
  VP_WITNESS("end");
}
