/* C07 wake obligation (event thread): the event thread only recomputes its sleep after a wake (socket-interest
 * update or pending-write notification).  So whenever ares_send_query() registers a deadline that is earlier than
 * every deadline present before the call (in particular when nothing was pending and the thread sleeps without a
 * limit), one of the two wake paths must have fired during the call.
 * Real: ares_send_query one level (requeue = contract stub), ares_conn_query_write, ares_conn_flush, ares_conn_write,
 * ares_conn_sock_state_cb_update, ares_open_connection.  The event thread's callbacks are replaced by recorders
 * (ares_event_thread_sockstate_cb -> ares_event_update -> wake; notifywrite_cb -> wake); the direct wake request
 * ares_event_thread_wake_channel() (added by the fix of finding evthread_idle_conn_nowake) is the recorder of machine.h. */
#include "machine.h"

static int woken;
static void wake_sock_state_cb(void *data, ares_socket_t fd, int r, int w)
{
  vsock_state_cb(data, fd, r, w); /* ledger */
  woken = 1;                      /* ares_event_update() always wakes the thread */
}
static void wake_notify_cb(void *data) { (void)data; woken = 1; }

void harness(void)
{
  ares_server_t *srv;
  ares_conn_t   *old = NULL;
  ares_query_t  *q;
  int            tok;
  ares_status_t  st;

  M_init();
  M_ch.flags                   = ARES_FLAG_STAYOPEN | (USEVC ? ARES_FLAG_USEVC : 0);
  M_ch.tries                   = 2;
  M_ch.sock_state_cb           = wake_sock_state_cb;
  M_ch.notify_pending_write_cb = wake_notify_cb;
  M_ch.notify_pending_write    = vp_bool() ? ARES_TRUE : ARES_FALSE; /* a pending-write wake may already be outstanding */
  M_write_may_fail             = 0;
  M_cookie_apply_may_fail      = 0;
  srv = world_add_server(&M_ch, 0, 0);
  if (EXISTING) old = world_add_conn(&M_ch, srv, EXISTING == 2); /* idle kept-open connection, READ interest announced */
  woken = 0;
  q     = M_new_query();
  tok   = M_ntok - 1;
  q->using_tcp = USEVC ? ARES_TRUE : ARES_FALSE;
  /* nothing pending: the event thread sleeps without a limit */
  VP_ASSERT(ares_slist_len(M_ch.queries_by_timeout) == 0, "pre-state: no deadline pending");

  st = ares_send_query(NULL, q, &M_now);

  if (M_cb_count[tok] == 0 && RQ_calls == 0) {
    VP_ASSERT(st == ARES_SUCCESS && q->node_queries_by_timeout != NULL, "request in flight with the only (= earliest) deadline");
#ifdef KF_evthread_idle_conn_nowake
    VP_ASSUME(!(q->conn == old && old != NULL && !M_ch.notify_pending_write && !(old->flags & ARES_CONN_FLAG_TCP)) );
    VP_ASSUME(!(q->conn == old && old != NULL));
#endif
#ifdef KFONLY_evthread_idle_conn_nowake
    VP_ASSUME(q->conn == old && old != NULL);
#endif
    /* a pending-write notification that was already outstanding before the call will still be processed */
    if (M_evwake) woken = 1; /* direct wake request (ares_event_thread_wake_channel) */
    VP_ASSERT(woken || (M_ch.notify_pending_write && (q->conn->flags & ARES_CONN_FLAG_TCP) && ares_buf_len(q->conn->out_buf) > 0),
              "FINDING evthread_idle_conn_nowake: registering the earliest deadline wakes the event thread");
    if (q->conn == old && old != NULL) VP_WITNESS("reused idle connection");
    else VP_WITNESS("fresh connection");
    VP_WITNESS("in flight");
  }
  VP_WITNESS("end");
}
