/* C10/C20: process_write() - a write event on a TCP connection.  Pre-state: ARBITRARY announced interest (what the
 * application was last told), connected or still connecting, 0..1 queued frame, 0..1 request on the connection.
 * Oracle: after the event the connection is either open with interest recorded == interest announced (write interest
 * iff bytes remain), or closed exactly once with the application told to stop exactly once iff it had been told to
 * watch.  Real: process_write, ares_conn_flush, ares_conn_write, ares_conn_sock_state_cb_update, handle_conn_error,
 * ares_close_connection; nested requeue = contract stub. */
#include "machine.h"

static ares_ssize_t send_partial(ares_socket_t s, const void *buf, size_t len)
{
  unsigned k = vp_u8();
  (void)s; (void)buf;
  if (k == 1) { errno = EWOULDBLOCK; return -1; }
  if (k == 2) { errno = ECONNREFUSED; return -1; }
  return (ares_ssize_t)vp_range(1, len);
}

void harness(void)
{
  ares_server_t *srv;
  ares_conn_t   *conn;
  ares_socket_t  fd;
  int            told0, w0;
  ares_status_t  st;
  static const unsigned char frame[3] = { 0, 1, 0x42 };

  M_init();
  vsock_send_script = send_partial;
  M_ch.flags = ARES_FLAG_STAYOPEN | ARES_FLAG_USEVC;
  srv  = world_add_server(&M_ch, 0, 0);
  conn = world_add_conn(&M_ch, srv, 1);
  fd   = conn->fd;
  /* as ares_open_connection leaves a TCP connection: READ|WRITE announced, maybe not yet connected */
  if (vp_bool()) conn->state_flags &= ~(unsigned int)ARES_CONN_STATE_CONNECTED;
  ares_conn_sock_state_cb_update(conn, ARES_CONN_STATE_READ | (vp_bool() ? ARES_CONN_STATE_WRITE : 0));
  if (vp_bool()) VP_ASSUME(ares_buf_append(conn->out_buf, frame, sizeof(frame)) == ARES_SUCCESS);
  if (vp_bool()) { ares_query_t *q = M_new_query(); q->using_tcp = ARES_TRUE; M_attach(q, conn, 1005); }
  told0 = vsock[fd].told_watch;
  w0    = vsock[fd].stop_calls;

  st = process_write(&M_ch, fd);
  (void)st;

  if (vsock[fd].state == 2) {
    VP_ASSERT(vsock[fd].closes == 1, "closed exactly once");
    VP_ASSERT(vsock[fd].told_watch == 0, "a closed socket is no longer watched by the application");
    VP_ASSERT(vsock[fd].stop_calls - w0 == (told0 ? 1 : 0), "told to stop exactly once iff it had been told to watch");
    VP_ASSERT(ares_conn_from_fd(&M_ch, fd) == NULL, "closed connection unregistered");
    VP_WITNESS("closed on write error");
  } else {
    VP_ASSERT(ares_conn_from_fd(&M_ch, fd) == conn, "connection still registered");
    VP_ASSERT((conn->state_flags & ARES_CONN_STATE_CONNECTED) != 0, "a write event marks the connection connected");
    VP_ASSERT(vsock[fd].last_r == ((conn->state_flags & ARES_CONN_STATE_READ) ? 1 : 0) &&
                vsock[fd].last_w == ((conn->state_flags & ARES_CONN_STATE_WRITE) ? 1 : 0),
              "interest recorded on the connection equals what the application was last told");
    VP_ASSERT(vsock[fd].last_r == 1, "an open connection is always watched for reading");
    VP_ASSERT((vsock[fd].last_w == 1) == (ares_buf_len(conn->out_buf) > 0), "watched for writing iff bytes remain queued");
    VP_WITNESS("still open");
  }
  VP_WITNESS("end");
}
