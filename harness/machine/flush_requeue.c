/* C06 / C14 "every query terminates": the resend FLUSH at the end of read_answers().  Two requests are in flight on one
 * UDP connection and two complete frames are waiting; each answers one of them with a TRUNCATED response, so
 * process_answer() (real) takes both off the connection and records them in the resend array (real
 * ares_append_requeue).  The flush then hands each recorded request to ares_send_query() = its contract stub
 * (sq_stub.c: the request is either put in flight, or completed once with ANY failure status, ARES_ENOMEM included).
 * Asserted: the flush hands EVERY recorded request to the send step exactly once, whatever the earlier ones returned
 * - a request that was taken off its connection and its deadline and is then not resent would never be retried, never
 * time out and never complete.
 * Real: read_answers, process_answer, same_questions, ares_append_requeue, handle_conn_error, ares_close_connection,
 * ares_requeue_query, real ares_buf / ares_array.  Parser = abstract-record stub. */
#define M_NO_QCACHE_INSERT
#include "machine.h"

static ares_dns_record_t *M_resp[2];
static int                M_parsed;
ares_status_t ares_dns_parse(const unsigned char *buf, size_t buf_len, unsigned int flags, ares_dns_record_t **dnsrec)
{
  (void)buf; (void)buf_len; (void)flags;
  if (M_parsed >= 2) { *dnsrec = NULL; return ARES_EBADRESP; }
  *dnsrec = M_resp[M_parsed++];
  return ARES_SUCCESS;
}
ares_status_t ares_qcache_insert(ares_channel_t *ch, const ares_timeval_t *now, const ares_query_t *q, ares_dns_record_t *r)
{ (void)ch; (void)now; (void)q; (void)r; return ARES_ENOTFOUND; }

void harness(void)
{
  ares_server_t             *srv;
  ares_conn_t               *conn;
  ares_query_t              *q[2];
  int                        tok[2], k, i, n;
  static const unsigned char frames[6] = { 0, 1, 0x41, 0, 1, 0x42 };

  M_init();
  M_reenter_cancel = 0;
  M_ch.flags       = ARES_FLAG_STAYOPEN;
  M_ch.tries       = 2;
  srv  = world_add_server(&M_ch, 0, 0);
  conn = world_add_conn(&M_ch, srv, 0);
  for (k = 0; k < 2; k++) {
    q[k]   = M_new_query();
    tok[k] = M_ntok - 1;
    M_attach(q[k], conn, 1005 + k);
    M_resp[k]        = vp_absrec_new(q[k]->qid);
    vp_absrec_set_question(M_resp[k], "a", 1, 1);
    M_resp[k]->flags = ARES_FLAG_TC;
    M_resp[k]->rcode = ARES_RCODE_NOERROR;
  }
  M_cookie_validate_rv = 0;
  VP_ASSUME(ares_buf_append(conn->in_buf, frames, sizeof(frames)) == ARES_SUCCESS);

  (void)read_answers(conn, &M_now);

  VP_ASSERT(M_parsed == 2, "both waiting frames were processed");
  for (k = 0; k < 2; k++) {
    n = 0;
    for (i = 0; i < SQ_calls; i++)
      if (SQ_query[i] == q[k]) n++;
    VP_ASSERT(M_cb_count[tok[k]] <= 1, "a request completes at most once");
    VP_ASSERT(n == 1, "every request recorded for a resend is handed to the send step, exactly once, whatever the other resends returned");
    VP_ASSERT(M_cb_count[tok[k]] == 1 || SQ_inflight[tok[k]], "after the flush a deferred request is in flight again or has completed");
  }
  if (M_cb_count[tok[0]] == 1 && SQ_inflight[tok[1]]) VP_WITNESS("first resend failed, second still sent");
  if (SQ_inflight[tok[0]] && SQ_inflight[tok[1]]) VP_WITNESS("both resent");
  VP_WITNESS("end");
}
