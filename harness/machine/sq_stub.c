/* Contract stub replacing the BODY of ares_send_query() in obligations that analyse its callers one level at a
 * time (the real function is analysed in sendquery.c against the same contract, "G-sendquery"):
 *   pre : the query is live, detached from any connection and from the timeout index;
 *   post: EITHER the query is in flight (abstracted: ghost SQ_inflight, left detached) and ARES_SUCCESS is returned,
 *         OR it has been completed exactly once (callback + release) / handed on, and a failure status is returned. */
#include "vp.h"
#include "machine_ext.h"
int            SQ_calls;
ares_query_t  *SQ_query[M_MAXCALLS];
ares_server_t *SQ_server[M_MAXCALLS];
int            SQ_inflight[MAXTOK];

ares_status_t ares_send_query(ares_server_t *requested_server, ares_query_t *query, const ares_timeval_t *now)
{
  int tok;
  (void)now;
  VP_BOUND(SQ_calls < M_MAXCALLS, "more send calls than recorder slots");
  VP_ASSERT(query->channel == &M_ch, "only a live request is (re)sent"); /* also a pointer check */
  tok = (int)((int *)query->arg - M_cb_count);
  VP_ASSERT(tok >= 0 && tok < MAXTOK && M_cb_count[tok] == 0, "only a request that has not completed is (re)sent");
  VP_ASSERT(query->conn == NULL && query->node_queries_to_conn == NULL && query->node_queries_by_timeout == NULL,
            "a request is detached from its previous connection and deadline before it is sent again");
  SQ_query[SQ_calls]  = query;
  SQ_server[SQ_calls] = requested_server;
  SQ_calls++;
  if (vp_bool()) {
    ares_status_t        st  = (ares_status_t)vp_range(1, 24);
    ares_callback_dnsrec cb  = query->callback;
    void                *arg = query->arg;
    if (ares_htable_szvp_get_direct(M_ch.queries_by_qid, query->qid) == query)
      ares_htable_szvp_remove(M_ch.queries_by_qid, query->qid);
    ares_llist_node_destroy(query->node_all_queries);
    query->node_all_queries = NULL;
    cb(arg, st, query->timeouts, NULL);
    ares_free_query(query);
    return st;
  }
  SQ_inflight[tok] = 1;
  return ARES_SUCCESS;
}
