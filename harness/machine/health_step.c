/* C09: server health bookkeeping and probing, ONE step each, ARBITRARY failure counters.
 *  OP 0 server_increment_failures: failures+1, list re-sorted, retry time = now + retry delay
 *  OP 1 server_set_good          : failures 0 (full priority), retry time cleared, list re-sorted
 *  OP 2 ares_probe_failed_server : a probe is a SEPARATE request (NOCACHE|NORETRY) to a server with failures > 0 whose
 *       retry time has passed and that has no probe pending, never the server just used, only with probability
 *       1/retry_chance, and the user's request is not modified.
 *  OP 3 ares_random_server / count_highest_prio_servers: a uniformly indexed member of the best-priority class.
 * Real: the named statics of ares_process.c; reference slist for the server list; ares_send_nolock = recorder. */
#include "machine.h"

static int            SN_calls;
static ares_server_t *SN_server;
static unsigned int   SN_flags;
static const ares_dns_record_t *SN_rec;
static int                      SN_done; /* the probe request has completed */
static ares_callback_dnsrec     SN_cb;   /* pending probe: its handler and argument as the library installed them */
static void                    *SN_arg;
ares_status_t ares_send_nolock(ares_channel_t *channel, ares_server_t *server, ares_send_flags_t flags,
                               const ares_dns_record_t *dnsrec, ares_callback_dnsrec callback, void *arg, unsigned short *qid)
{
  (void)channel; (void)qid;
  VP_ASSERT(callback != NULL, "a probe has its own completion handler");
  SN_calls++;
  SN_server = server;
  SN_flags  = (unsigned int)flags;
  SN_rec    = dnsrec;
  /* contract G-send (checked on the real ares_send_nolock in send_early.c): the request either completes during the
   * call - the handler is invoked exactly once, e.g. allocation failure, no usable server, connect refused - or stays
   * pending and completes exactly once later */
  if (vp_bool()) {
    ares_status_t st = (ares_status_t)vp_range(1, 24);
    SN_done = 1;
    callback(arg, st, 0, NULL);
    return st;
  }
  SN_cb  = callback;
  SN_arg = arg;
  return ARES_SUCCESS;
}

static int sorted_ok(void)
{
  ares_slist_node_t *n, *p = NULL;
  for (n = ares_slist_node_first(M_ch.servers); n != NULL; p = n, n = ares_slist_node_next(n))
    if (p != NULL && world_server_sort_cmp(ares_slist_node_val(p), ares_slist_node_val(n)) > 0) return 0;
  return 1;
}

void harness(void)
{
  ares_server_t *srv[3];
  size_t         f[3], i, minf;
  int            ns = NSRV;

  M_init();
  for (i = 0; i < (size_t)ns; i++) {
    f[i]   = vp_range(0, 3);
    srv[i] = world_add_server(&M_ch, i, f[i]);
    srv[i]->probe_pending        = vp_bool() ? ARES_TRUE : ARES_FALSE;
    srv[i]->next_retry_time.sec  = (ares_int64_t)vp_range(0, 2000);
    srv[i]->next_retry_time.usec = 0;
  }
  minf = f[0];
  for (i = 1; i < (size_t)ns; i++) if (f[i] < minf) minf = f[i];
  M_ch.server_retry_delay  = vp_range(0, 100000);
  M_ch.server_retry_chance = (unsigned short)vp_range(0, 3);
  VP_ASSERT(sorted_ok(), "pre-state sorted");

#if OP == 0
  {
    size_t k = vp_range(0, (size_t)ns - 1);
    server_increment_failures(srv[k], vp_bool() ? ARES_TRUE : ARES_FALSE);
    VP_ASSERT(srv[k]->consec_failures == f[k] + 1, "a failure or timeout demotes the server by one");
    VP_ASSERT(sorted_ok() && ares_slist_len(M_ch.servers) == (size_t)ns, "server list re-sorted, nothing lost");
    VP_ASSERT(ares_timedout(&M_now, &srv[k]->next_retry_time) == (M_ch.server_retry_delay == 0 ? ARES_TRUE : ARES_FALSE),
              "next retry time is now + retry delay");
    for (i = 0; i < (size_t)ns; i++) if (i != k) VP_ASSERT(srv[i]->consec_failures == f[i], "other servers untouched");
  }
#elif OP == 1
  {
    size_t k = vp_range(0, (size_t)ns - 1);
    server_set_good(srv[k], vp_bool() ? ARES_TRUE : ARES_FALSE);
    VP_ASSERT(srv[k]->consec_failures == 0, "a success restores the server to full priority");
    VP_ASSERT(srv[k]->next_retry_time.sec == 0 && srv[k]->next_retry_time.usec == 0, "retry time cleared");
    VP_ASSERT(sorted_ok() && ares_slist_len(M_ch.servers) == (size_t)ns, "server list re-sorted, nothing lost");
    VP_ASSERT(ares_slist_first_val(M_ch.servers) == srv[k] || ((ares_server_t *)ares_slist_first_val(M_ch.servers))->consec_failures == 0,
              "a good server is in the best class");
  }
#elif OP == 2
  {
    ares_query_t *q    = M_new_query();
    size_t        used = vp_range(0, (size_t)ns - 1);
    unsigned short qid0 = q->qid;
    size_t         try0 = q->try_count;
    int            any  = 0;
    ares_server_t *expect = NULL;
    ares_slist_node_t *n;
    ares_probe_failed_server(&M_ch, srv[used], q);
    /* reference: first server in list order with failures, retry time passed, no probe pending */
    for (n = ares_slist_node_first(M_ch.servers); n != NULL; n = ares_slist_node_next(n)) {
      ares_server_t *s = ares_slist_node_val(n);
      if (s->consec_failures > 0) any = 1;
    }
    if (SN_calls) {
      VP_ASSERT(SN_calls == 1, "at most one probe per request");
      VP_ASSERT(M_ch.server_retry_chance != 0 && any, "probes only when enabled and some server has failures");
      VP_ASSERT(SN_server != NULL && SN_server != srv[used], "never probes the server just used");
      VP_ASSERT(SN_server->consec_failures > 0, "only a failed server is probed");
      VP_ASSERT(ares_timedout(&M_now, &SN_server->next_retry_time), "only after its retry delay has passed");
      /* the pending probe completes later (answer, timeout, cancel, connection error ...): any status */
      if (!SN_done && vp_bool()) {
        SN_done = 1;
        SN_cb(SN_arg, (ares_status_t)vp_range(0, 24), 0, NULL);
        VP_WITNESS("probe completed later");
      }
#ifdef KFONLY_probe_sync_fail_pending
      VP_ASSUME(SN_done);
#endif
      if (SN_done) {
#ifndef KF_probe_sync_fail_pending
        VP_ASSERT(SN_server->probe_pending == ARES_FALSE,
                  "FINDING probe_sync_fail_pending: a probe that has ended - at whatever point, a failure inside the send call "
                  "included - releases its server for the next probe");
#endif
        VP_WITNESS("probe ended");
      } else {
        VP_ASSERT(SN_server->probe_pending == ARES_TRUE, "the probed server is marked probe-pending while its probe is outstanding");
      }
      VP_ASSERT((SN_flags & ARES_SEND_FLAG_NOCACHE) && (SN_flags & ARES_SEND_FLAG_NORETRY), "a probe bypasses the cache and never retries");
      VP_ASSERT(SN_rec == q->query, "the probe is a copy of the user's question");
      VP_WITNESS("probe sent");
    } else {
      VP_WITNESS("no probe");
    }
    (void)expect;
    VP_ASSERT(q->qid == qid0 && q->try_count == try0 && q->conn == NULL && M_cb_count[M_ntok - 1] == 0, "the user's request is not altered by probing");
    for (i = 0; i < (size_t)ns; i++) VP_ASSERT(srv[i]->consec_failures == f[i], "probing changes no failure counter");
  }
#else
  {
    size_t         cnt = count_highest_prio_servers(&M_ch), ref = 0;
    ares_server_t *pick;
    for (i = 0; i < (size_t)ns; i++) if (f[i] == minf) ref++;
    VP_ASSERT(cnt == ref, "best class = servers sharing the fewest consecutive failures");
    pick = ares_random_server(&M_ch);
    VP_ASSERT(pick != NULL && pick->consec_failures == minf, "rotation picks a member of the best class");
  }
#endif
  VP_WITNESS("end");
}
