/* The "send machine": real request life-cycle control code around a channel built by world.c.
 * Real (bodies in the formula): all of ares_process.c (this TU), ares_conn.c, ares_socket.c, ares_close_sockets.c,
 *   ares_send.c (probe requests), ares_cancel.c, ares_metrics.c, ares_llist.c, ares_buf.c, ares_array.c.
 * Contract stubs (assumptions): slist_ref / szvp_ref / asvp_ref reference containers; vsock virtual sockets;
 *   abstract DNS records; ares_dns_write_buf_tcp = "append a 3-byte frame or fail"; ares_cookie_apply/validate and
 *   ares_qcache_* = any documented status; clock = harness variable; RNG = arbitrary bytes. */
#ifndef MACHINE_H
#define MACHINE_H
#include "vp.h"
#include "ares_process.c"
#include "world.h"
#include "dnsrec_abs.h"
#include <errno.h>


#include "machine_ext.h"
ares_channel_t M_ch;
ares_timeval_t M_now;
int            M_cb_count[MAXTOK];
ares_status_t  M_cb_status[MAXTOK];
int            M_ntok;
int            M_depth;           /* callback nesting */
int            M_reenter_cancel;  /* allow callbacks to call ares_cancel() (depth 1) */
int            M_reentered;
int            M_evwake;          /* ares_event_thread_wake_channel() calls (the event thread is asked to recompute its sleep) */
size_t         M_writes;          /* successful frame hand-overs to a connection buffer */
ares_conn_t   *M_last_write_conn;
int            M_cookie_validate_rv; /* 0 = accept */

/* ---- clock / rng ---- */
void ares_tvnow(ares_timeval_t *now) { *now = M_now; }
void ares_rand_bytes(ares_rand_state *s, unsigned char *buf, size_t len) { (void)s; vp_bytes(buf, len); }
unsigned short ares_generate_new_id(ares_rand_state *s) { (void)s; return vp_u16(); }

/* ---- codec / cookie / cache neighbours ---- */
static int M_write_may_fail = 1;
ares_status_t ares_dns_write_buf_tcp(const ares_dns_record_t *dnsrec, ares_buf_t *buf)
{
  static const unsigned char frame[3] = { 0, 1, 0x42 };
  VP_ASSERT(dnsrec != NULL, "only a live request record is serialised");
  if (M_write_may_fail && vp_bool())
    return ARES_ENOMEM;
  if (ares_buf_append(buf, frame, sizeof(frame)) != ARES_SUCCESS)
    return ARES_ENOMEM;
  M_writes++;
  return ARES_SUCCESS;
}
static int M_cookie_apply_may_fail = 1;
ares_status_t ares_cookie_apply(ares_dns_record_t *r, ares_conn_t *c, const ares_timeval_t *n)
{
  (void)r; (void)n;
  VP_ASSERT(vsock[c->fd].state == 1, "a request is prepared only for an open connection");
  M_last_write_conn = c;
  if (M_cookie_apply_may_fail && vp_bool())
    return ARES_ENOMEM;
  return ARES_SUCCESS;
}
ares_status_t ares_cookie_validate(ares_query_t *q, const ares_dns_record_t *r, ares_conn_t *c, const ares_timeval_t *n,
                                   ares_array_t **rq)
{
  (void)q; (void)r; (void)c; (void)n; (void)rq;
  return M_cookie_validate_rv ? ARES_EBADRESP : ARES_SUCCESS;
}
/* event/ares_event_thread.c is not part of the machine: its wake entry point is a recorder (the real one signals the
 * thread's wake pipe iff the event thread monitors this channel) */
void ares_event_thread_wake_channel(const ares_channel_t *channel)
{
  (void)channel;
  M_evwake++;
}
#ifndef M_NO_QCACHE_INSERT
ares_status_t ares_qcache_insert(ares_channel_t *ch, const ares_timeval_t *now, const ares_query_t *q, ares_dns_record_t *r)
{ (void)ch; (void)now; (void)q; (void)r; return ARES_ENOTFOUND; }
#endif
#ifndef M_NO_QCACHE_FETCH
ares_status_t ares_qcache_fetch(ares_channel_t *ch, const ares_timeval_t *now, const ares_dns_record_t *req,
                                const ares_dns_record_t **resp)
{ (void)ch; (void)now; (void)req; (void)resp; return ARES_ENOTFOUND; }
ares_status_t ares_dns_record_duplicate_ex(ares_dns_record_t **dest, const ares_dns_record_t *src)
{
  *dest = ares_dns_record_duplicate(src);
  return *dest ? ARES_SUCCESS : ARES_ENOMEM;
}
#endif
ares_status_t ares_get_server_addr(const ares_server_t *server, ares_buf_t *buf) { (void)server; (void)buf; return ARES_SUCCESS; }

/* ---- user callback with optional re-entry ---- */
static void M_user_cb(void *arg, ares_status_t status, size_t timeouts, const ares_dns_record_t *dnsrec)
{
  int *cnt = arg;
  (void)timeouts; (void)dnsrec;
  (*cnt)++;
  VP_ASSERT(*cnt == 1, "completion callback invoked at most once per request");
  M_cb_status[cnt - M_cb_count] = status;
  if (M_reenter_cancel && M_depth == 0 && vp_bool()) {
    M_depth++;
    M_reentered = 1;
    ares_cancel(&M_ch);
    M_depth--;
  }
}

/* a request as ares_send_nolock() links it before the first ares_send_query() */
static ares_query_t *M_new_query(void)
{
  ares_query_t *q   = ares_malloc_zero(sizeof(*q));
  int           tok = M_ntok++;
  VP_BOUND(tok < MAXTOK, "more requests than token slots");
  VP_ASSUME(q != NULL);
  q->channel  = &M_ch;
  q->qid      = (unsigned short)(100 + tok);
  q->callback = M_user_cb;
  q->arg      = &M_cb_count[tok];
  q->query    = vp_absrec_new(q->qid);
  vp_absrec_set_question(q->query, "a", 1, 1);
  q->node_all_queries = ares_llist_insert_last(M_ch.all_queries, q);
  VP_ASSUME(q->node_all_queries != NULL);
  VP_ASSUME(ares_htable_szvp_insert(M_ch.queries_by_qid, q->qid, q));
  return q;
}
/* put a request in flight on a connection, as a successful ares_send_query() leaves it */
static void M_attach(ares_query_t *q, ares_conn_t *c, ares_int64_t deadline_sec)
{
  q->conn                    = c;
  q->using_tcp               = (c->flags & ARES_CONN_FLAG_TCP) ? ARES_TRUE : ARES_FALSE;
  q->node_queries_to_conn    = ares_llist_insert_last(c->queries_to_conn, q);
  q->timeout.sec             = deadline_sec;
  q->timeout.usec            = 0;
  q->ts                      = M_now;
  q->node_queries_by_timeout = ares_slist_insert(M_ch.queries_by_timeout, q);
  VP_ASSUME(q->node_queries_to_conn != NULL && q->node_queries_by_timeout != NULL);
  c->total_queries++;
}
/* socket scripts: all-or-nothing transfers keep buffer fill levels concrete */
static ares_ssize_t M_send_script(ares_socket_t s, const void *buf, size_t len)
{
  unsigned k = vp_u8();
  (void)s; (void)buf;
  if (k == 1) { errno = EWOULDBLOCK; return -1; }
  if (k == 2) { errno = ECONNREFUSED; return -1; }
  if (k == 3) { errno = ENETUNREACH; return -1; }
  return (ares_ssize_t)len;
}
/* link-state invariant of the channel (what every API step must re-establish) */
static void M_check_links(void)
{
  ares_llist_node_t *n;
  ares_slist_node_t *sn;
  size_t             on_timeout = 0;
  for (n = ares_llist_node_first(M_ch.all_queries); n != NULL; n = ares_llist_node_next(n)) {
    ares_query_t *q = ares_llist_node_val(n);
    VP_ASSERT(q->node_all_queries == n, "live request knows its list node");
    VP_ASSERT(ares_htable_szvp_get_direct(M_ch.queries_by_qid, q->qid) == q, "live request indexed under its id");
    VP_ASSERT((q->conn != NULL) == (q->node_queries_to_conn != NULL) && (q->conn != NULL) == (q->node_queries_by_timeout != NULL),
              "a request is on a connection iff it is in that connection's list and in the timeout index");
    if (q->conn != NULL) {
      VP_ASSERT(vsock[q->conn->fd].state == 1, "a request never sits on a closed connection");
      on_timeout++;
    }
  }
  VP_ASSERT(ares_htable_szvp_num_keys(M_ch.queries_by_qid) == ares_llist_len(M_ch.all_queries), "qid index = live requests");
  VP_ASSERT(ares_slist_len(M_ch.queries_by_timeout) == on_timeout, "timeout index = requests in flight");
  for (sn = ares_slist_node_first(M_ch.servers); sn != NULL; sn = ares_slist_node_next(sn)) {
    ares_server_t *s = ares_slist_node_val(sn);
    for (n = ares_llist_node_first(s->connections); n != NULL; n = ares_llist_node_next(n)) {
      ares_conn_t *c = ares_llist_node_val(n);
      VP_ASSERT(vsock[c->fd].state == 1, "every registered connection has an open descriptor");
      VP_ASSERT(ares_conn_from_fd(&M_ch, c->fd) == c, "every registered connection is found by its descriptor");
    }
  }
  VP_ASSERT(vp_lock_depth == 0, "channel lock balanced");
}
/* like M_check_links, tolerating requests the contract stubs left "to be sent"/"in flight" abstractly */
static void M_check_links_relaxed(void)
{
  ares_llist_node_t *n;
  for (n = ares_llist_node_first(M_ch.all_queries); n != NULL; n = ares_llist_node_next(n)) {
    ares_query_t *q = ares_llist_node_val(n);
    VP_ASSERT(q->node_all_queries == n, "live request knows its list node");
    VP_ASSERT(ares_htable_szvp_get_direct(M_ch.queries_by_qid, q->qid) == q, "live request indexed under its id");
    VP_ASSERT((q->conn != NULL) == (q->node_queries_to_conn != NULL) && (q->conn != NULL) == (q->node_queries_by_timeout != NULL),
              "a request is on a connection iff it is in that connection's list and in the timeout index");
    if (q->conn != NULL) VP_ASSERT(vsock[q->conn->fd].state == 1, "a request never sits on a closed connection");
  }
  VP_ASSERT(ares_htable_szvp_num_keys(M_ch.queries_by_qid) == ares_llist_len(M_ch.all_queries), "qid index = live requests");
  VP_ASSERT(vp_lock_depth == 0, "channel lock balanced");
}
static void M_init(void)
{
  vp_alloc_install();
  world_init(&M_ch);
  M_now.sec         = 1000;
  M_now.usec        = 0;
  vsock_send_script = M_send_script;
}
#endif
