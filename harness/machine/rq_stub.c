/* Contract stub replacing the BODY of ares_requeue_query() in obligations that analyse its callers one level at a
 * time (the real function is analysed in requeue_step.c against the same contract):
 *   pre : the query is live (not released) - dereferenced here, so a released query is a pointer-check failure;
 *   post: the query has left its connection and the timeout index; then EITHER it has been completed exactly once
 *         (callback + release; returns any failure status) OR it stays live to be transmitted again (abstracted: left
 *         detached, token marked RQ_resent; returns any status). */
#include "vp.h"
#include "machine_ext.h"
int            RQ_calls;
ares_query_t  *RQ_query[M_MAXCALLS];
ares_status_t  RQ_status[M_MAXCALLS];
ares_bool_t    RQ_inc[M_MAXCALLS];
int            RQ_deferred[M_MAXCALLS];
size_t         RQ_srvfail[M_MAXCALLS];
int            RQ_resent[MAXTOK];

ares_status_t ares_requeue_query(ares_query_t *query, const ares_timeval_t *now, ares_status_t status,
                                 ares_bool_t inc_try_count, const ares_dns_record_t *dnsrec, ares_array_t **requeue)
{
  int tok;
  (void)now; (void)dnsrec;
  VP_BOUND(RQ_calls < M_MAXCALLS, "more requeue calls than recorder slots");
  VP_ASSERT(query->channel == &M_ch, "requeue is only asked for a live request"); /* also a pointer check */
  tok = (int)((int *)query->arg - M_cb_count);
  VP_ASSERT(tok >= 0 && tok < MAXTOK && M_cb_count[tok] == 0, "requeue is only asked for a request that has not completed");
  RQ_query[RQ_calls]    = query;
  RQ_status[RQ_calls]   = status;
  RQ_inc[RQ_calls]      = inc_try_count;
  RQ_deferred[RQ_calls] = requeue != NULL;
  RQ_srvfail[RQ_calls]  = (query->conn != NULL) ? query->conn->server->consec_failures : 0;
  RQ_calls++;
  /* leaves its connection and the timeout index */
  ares_slist_node_destroy(query->node_queries_by_timeout);
  ares_llist_node_destroy(query->node_queries_to_conn);
  query->node_queries_by_timeout = NULL;
  query->node_queries_to_conn    = NULL;
  query->conn                    = NULL;
  if (inc_try_count)
    query->try_count++;
  if (requeue == NULL && vp_bool()) {
    /* budget exhausted / send failed for good: completed exactly once */
    ares_status_t        st  = (ares_status_t)vp_range(1, 24);
    ares_callback_dnsrec cb  = query->callback;
    void                *arg = query->arg;
    /* detach before the callback, as end_query() does */
    if (ares_htable_szvp_get_direct(M_ch.queries_by_qid, query->qid) == query)
      ares_htable_szvp_remove(M_ch.queries_by_qid, query->qid);
    ares_llist_node_destroy(query->node_all_queries);
    query->node_all_queries = NULL;
    cb(arg, st, query->timeouts, NULL);
    ares_free_query(query);
    return st;
  }
  RQ_resent[tok] = 1;
  return (ares_status_t)vp_range(0, 24);
}
