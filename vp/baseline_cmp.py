#!/usr/bin/env python3
"""Build /repo/_build (guard OFF: CARES_VERIF is never defined by the CMake build), run arestest and
compare the passing gtest cases with /root/.vp/BASELINE.json stable_pass.  Exit 0 iff none is missing."""
import json, os, subprocess, sys
REPO = os.environ.get("VP_REPO", "/repo")
B = os.path.join(REPO, "_build")
if not os.path.exists(os.path.join(B, "build.ninja")) and not os.path.exists(os.path.join(B, "Makefile")):
    subprocess.run(["cmake", "-G", "Ninja", "-S", REPO, "-B", B, "-DCARES_BUILD_TESTS=ON",
                    "-DCMAKE_BUILD_TYPE=RelWithDebInfo"], check=True, stdout=subprocess.DEVNULL)
subprocess.run(["cmake", "--build", B, "-j16"], check=True, stdout=subprocess.DEVNULL)
out = "/tmp/vp_arestest.json"
subprocess.run([os.path.join(B, "bin", "arestest"), "--gtest_output=json:" + out], cwd=os.path.join(B, "test"),
               stdout=subprocess.DEVNULL, stderr=subprocess.DEVNULL)
d = json.load(open(out))
passed = set()
for s in d["testsuites"]:
    for t in s["testsuite"]:
        if t.get("result") == "COMPLETED" and not t.get("failures"):
            passed.add(s["name"] + "::" + t["name"])
# the two ctest-level fuzz-corpus targets
for name, cdir in (("aresfuzz", "fuzzinput"), ("aresfuzzname", "fuzznames")):
    files = sorted(os.listdir(os.path.join(REPO, "test", cdir)))
    rc = subprocess.run([os.path.join(B, "bin", name)] + files, cwd=os.path.join(REPO, "test", cdir),
                        stdout=subprocess.DEVNULL, stderr=subprocess.DEVNULL).returncode
    if rc == 0:
        passed.add(name + "::" + name)
base = json.load(open("/root/.vp/BASELINE.json"))["stable_pass"]
missing = [b for b in base if b not in passed and "::" in b]
other = [b for b in base if "::" not in b]
print("passed=%d baseline=%d missing=%d non-gtest-baseline-entries=%s" % (len(passed), len(base), len(missing), other[:5]))
for m in missing[:40]:
    print("MISSING", m)
sys.exit(1 if missing else 0)
