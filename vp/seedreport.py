#!/usr/bin/env python3
"""Builds /verif/seeded/README.md (table of independently seeded changes and what the checks said) from meta.json files."""
import json, os, glob
notes = json.load(open("/verif/seeded/NOTES.json")) if os.path.exists("/verif/seeded/NOTES.json") else {}
rows = []
for d in sorted(glob.glob("/verif/seeded/C*_*")):
    m = os.path.join(d, "meta.json")
    if not os.path.exists(m):
        continue
    j = json.load(open(m))
    name = os.path.basename(d)
    readme = ""
    rp = os.path.join(d, "README.md")
    if os.path.exists(rp):
        for line in open(rp, errors="replace"):
            line = line.strip()
            if line and not line.startswith("#"):
                readme = line[:160]; break
    viol = j.get("check_violations", [])
    first = ""
    if viol:
        v = viol[0]
        first = v[v.find("(") + 1: v.find(" at /")] if "(" in v else v[:120]
    hist = j.get("history", [])
    missed_before = any(h.get("detected") is False for h in hist)
    rows.append((name, j.get("property"), j.get("valid_seed"), j.get("detected"), missed_before, first[:150], j.get("note", ""), readme))
with open("/verif/seeded/README.md", "w") as f:
    f.write("# Independently seeded changes\n\nEach directory holds `patch.diff`, the sub-agent's demonstration (`demo.c`, `build.sh`, `run.sh`, `README.md`) "
            "and `meta.json` written by `vp/seedcheck.py` (what was run, exit codes, what the property's check reported). The "
            "sub-agents saw only the property text and their own scratch worktree. None of these patches is applied to /repo.\n\n"
            "| seed | valid (demo passes clean / fails patched / suite unchanged) | check reports VIOLATION | first catching job: assertion | remark |\n|---|---|---|---|---|\n")
    for r in rows:
        rem = notes.get(r[0]) or r[6] or ("missed by the check as it stood when the seed was produced; caught after strengthening" if r[4] and r[3] else "")
        f.write("| %s | %s | %s | %s | %s |\n" % (r[0], r[2], r[3], r[5].replace("|", "/"), rem))
    n = len(rows); v = sum(1 for r in rows if r[2]); dct = sum(1 for r in rows if r[2] and r[3])
    f.write("\n%d seeds recorded, %d valid, %d of the valid ones reported as VIOLATION by the property's quick check.\n" % (n, v, dct))
print(open("/verif/seeded/README.md").read()[-1500:])
