#!/usr/bin/env python3
"""Driver: builds harness x job goto binaries from /repo's *current* working
tree, runs CBMC on each, classifies every CBMC property, replays
counterexamples natively, writes evidence/<id>.json.

usage: check <Cxx> [--tier quick|thorough] [--only <job-substring>] [--replay <dir>] [--keep]
exit : 0 held (maybe with KNOWN-FINDING lines) | 1 VIOLATION | 2 inconclusive/broken
"""
import concurrent.futures as cf
import hashlib
import importlib.util
import json
import os
import re
import resource
import shutil
import subprocess
import sys
import time

VERIF = os.path.dirname(os.path.dirname(os.path.abspath(__file__)))
REPO = os.environ.get("VP_REPO", "/repo")
WORK = os.environ.get("VP_WORK") or os.path.join(VERIF, ".work")
SCRATCH = bool(os.environ.get("VP_WORK"))  # scratch run (mutant / experiment): evidence and replays go under VP_WORK
COMMON = os.path.join(VERIF, "harness", "common")
STUBS = os.path.join(VERIF, "harness", "stubs")

BASE_DEFS = ["-DCARES_BUILDING_LIBRARY", "-DHAVE_CONFIG_H=1", "-D_GNU_SOURCE",
             "-D_POSIX_C_SOURCE=200809L", "-D_XOPEN_SOURCE=700", "-DNDEBUG", "-DCARES_VERIF"]

CBMC_BASE = ["--verbosity", "8", "--unwinding-assertions", "--drop-unused-functions", "--no-malloc-may-fail",
             "--object-bits", "12",
             "--no-standard-checks", "--bounds-check", "--pointer-check", "--div-by-zero-check",
             "--signed-overflow-check", "--undefined-shift-check", "--pointer-primitive-check",
             "--float-overflow-check", "--nan-check"]


def cfg_dir():
    """Directory holding the generated ares_config.h / ares_build.h."""
    d = os.path.join(VERIF, ".work", "cfg")
    if os.path.exists(os.path.join(d, "ares_config.h")) and os.path.exists(os.path.join(d, "ares_build.h")):
        return d
    b = os.path.join(REPO, "_build")
    if os.path.exists(os.path.join(b, "ares_config.h")) and os.path.exists(os.path.join(b, "ares_build.h")):
        return b
    os.makedirs(os.path.join(VERIF, ".work"), exist_ok=True)
    subprocess.run(["cmake", "-S", REPO, "-B", d, "-DCARES_BUILD_TESTS=OFF", "-DCARES_BUILD_TOOLS=OFF",
                    "-DCMAKE_BUILD_TYPE=RelWithDebInfo"], stdout=subprocess.DEVNULL, stderr=subprocess.DEVNULL,
                   check=True)
    return d


def include_flags(prop):
    return ["-I" + os.path.join(VERIF, "harness", "machine"), "-I" + cfg_dir(), "-I" + REPO, "-I" + os.path.join(REPO, "include"),
            "-I" + os.path.join(REPO, "src/lib"), "-I" + os.path.join(REPO, "src/lib/include"),
            "-I" + COMMON, "-I" + STUBS, "-I" + os.path.join(VERIF, "harness", prop)]


def limit(mem_gb, cpu_s=None):
    def f():
        b = int(mem_gb * (1 << 30))
        resource.setrlimit(resource.RLIMIT_AS, (b, b))
        if cpu_s:
            resource.setrlimit(resource.RLIMIT_CPU, (int(cpu_s), int(cpu_s) + 5))
        os.setsid()
    return f


def run(cmd, out, timeout, mem_gb, cwd=None, env=None):
    """`timeout` is a budget of CPU seconds of the (single-threaded) tool, so that a verdict does not depend on how
    loaded the machine is; the wall clock is only a backstop at 5x that budget.  Returns (rc, seconds used) where
    seconds is the wall time, or the budget when it was exhausted; rc == -9 means budget exhausted / killed."""
    t0 = time.time()
    with open(out, "w") as fo:
        p = subprocess.Popen(cmd, stdout=fo, stderr=subprocess.STDOUT, preexec_fn=limit(mem_gb, timeout), cwd=cwd, env=env)
        try:
            rc = p.wait(timeout=timeout * 5 + 60)
        except subprocess.TimeoutExpired:
            try:
                os.killpg(p.pid, 9)
            except Exception:
                p.kill()
            p.wait()
            rc = -9
    dt = time.time() - t0
    if rc in (-24, -9) and rc == -24:   # SIGXCPU: CPU budget exhausted
        return -9, max(dt, float(timeout))
    return rc, dt


def src_paths(job, prop):
    """(harness, real TUs, support files) as absolute paths."""
    hdir = os.path.join(VERIF, "harness", prop)
    h = os.path.join(hdir, job["harness"])
    real = [os.path.join(REPO, r) for r in job.get("real", [])]
    sup = []
    for s in job.get("support", ["vp_rt.c", "valloc.c", "memloops.c"]):
        for base in (hdir, COMMON, STUBS):
            if os.path.exists(os.path.join(base, s)):
                sup.append(os.path.join(base, s))
                break
        else:
            raise SystemExit("support file not found: " + s)
    return h, real, sup


BACKENDS = {
    "sat": [],
    "cadical": ["--sat-solver", "cadical"],
    "kissat": ["--external-sat-solver", "kissat"],
    "z3": ["--z3"],
    "cvc5": ["--cvc5"],
}


def cbmc_sizes(path):
    """(SSA steps of the unrolled program, verification conditions generated) as reported by CBMC."""
    steps = vccs = 0
    try:
        for el in json.load(open(path)):
            t = el.get("messageText", "")
            m = re.search(r"size of program expression: (\d+) steps", t)
            if m:
                steps = int(m.group(1))
            m = re.search(r"Generated (\d+) VCC", t)
            if m:
                vccs = int(m.group(1))
    except Exception:
        pass
    return steps, vccs


def parse_cbmc_json(path):
    try:
        data = json.load(open(path))
    except Exception:
        return None, None, ""
    res = None
    status = None
    msgs = []
    for el in data:
        if "result" in el:
            res = el["result"]
        if "cProverStatus" in el:
            status = el["cProverStatus"]
        if el.get("messageType") in ("ERROR", "WARNING") and "messageText" in el:
            msgs.append(el["messageText"])
    return res, status, "\n".join(msgs)[:2000]


LEAF = {"vp_u8", "vp_u16", "vp_u32", "vp_u64", "vp_int", "vp_long", "vp_size"}


def trace_values(trace):
    vals = []
    for st in trace:
        if st.get("stepType") != "assignment" or st.get("hidden"):
            continue
        fn = st.get("sourceLocation", {}).get("function")
        if fn in LEAF and st.get("lhs") == "v":
            b = st.get("value", {}).get("binary")
            if b is not None:
                vals.append(int(b, 2))
            else:
                try:
                    vals.append(int(st["value"]["data"]) & ((1 << 64) - 1))
                except Exception:
                    vals.append(0)
    return vals


def trace_summary(trace, limit_n=400):
    """Human-readable abbreviated trace (non-hidden assignments and calls in repo/harness files)."""
    out = []
    for st in trace:
        if st.get("hidden"):
            continue
        sl = st.get("sourceLocation", {})
        f = sl.get("file", "")
        if f.startswith("<") or os.path.basename(f) == "ares_math.c" and sl.get("function") == "ares_count_bits_u8":
            continue
        t = st.get("stepType")
        if t == "assignment":
            v = st.get("value", {})
            out.append("%s:%s %s: %s = %s" % (os.path.basename(f), sl.get("line"), sl.get("function"), st.get("lhs"),
                                             v.get("data", v.get("name"))))
        elif t == "function-call":
            out.append("%s:%s CALL %s" % (os.path.basename(f), sl.get("line"), st.get("function", {}).get("displayName")))
        elif t == "failure":
            out.append("%s:%s FAILURE %s" % (os.path.basename(f), sl.get("line"), st.get("reason")))
    if len(out) > limit_n:
        out = out[:limit_n // 2] + ["..."] + out[-limit_n // 2:]
    return out


def classify(props):
    """Split CBMC property results into witnesses/bound/unwind/real."""
    wit_reached, wit_missed, bound_fail, real_fail, unknown = [], [], [], [], []
    n_ob = n_ok = 0
    for p in props:
        d = p.get("description", "")
        st = p.get("status")
        cls = p.get("sourceLocation", {}).get("propertyClass", "")
        if d.startswith("WITNESS:"):
            (wit_reached if st == "FAILURE" else wit_missed).append(d[8:])
            continue
        n_ob += 1
        if st == "SUCCESS":
            n_ok += 1
            continue
        if st != "FAILURE":
            # CBMC leaves properties UNKNOWN when other properties failed in the same run; never a verdict
            unknown.append(p)
            continue
        if ".no-body." in p.get("property", "") or d.startswith("BOUND:") or cls == "unwinding-assertion" or "unwinding assertion" in d or \
           "recursion unwinding" in d:
            bound_fail.append(p)
        else:
            real_fail.append(p)
    return wit_reached, wit_missed, bound_fail, real_fail, n_ob, n_ok, unknown


def build_goto(job, prop, jdir, extra_defs):
    h, real, sup = src_paths(job, prop)
    gb = os.path.join(jdir, "h.gb")
    cmd = ["goto-cc", "-std=gnu99"] + BASE_DEFS + include_flags(prop) + job.get("defines", []) + extra_defs + \
        [h] + real + sup + ["--function", job.get("entry", "harness"), "-o", gb]
    rc, _ = run(cmd, os.path.join(jdir, "goto-cc.log"), 300, 8)
    if rc != 0:
        return None, open(os.path.join(jdir, "goto-cc.log")).read()[-3000:]
    cur = gb
    # replace the bodies of functions defined inside an included real TU (DESIGN R0): remove the body, then link
    # the harness-supplied definition
    if job.get("replace"):
        hdir = os.path.join(VERIF, "harness", prop)
        nxt = os.path.join(jdir, "h_rm.gb")
        args = []
        for fn in job["replace"]:
            args += ["--remove-function-body", fn]
        rc, _ = run(["goto-instrument"] + args + [cur, nxt], os.path.join(jdir, "gi_rm.log"), 300, 8)
        if rc != 0:
            return None, open(os.path.join(jdir, "gi_rm.log")).read()[-3000:]
        repl = []
        for sfile in job.get("replace_with", []):
            for base in (hdir, COMMON, STUBS, os.path.join(VERIF, "harness", "machine")):
                if os.path.exists(os.path.join(base, sfile)):
                    repl.append(os.path.join(base, sfile)); break
            else:
                return None, "replacement file not found: " + sfile
        nxt2 = os.path.join(jdir, "h_rl.gb")
        cmd = ["goto-cc", "-std=gnu99"] + BASE_DEFS + include_flags(prop) + job.get("defines", []) + extra_defs + \
            [nxt] + repl + ["--function", job.get("entry", "harness"), "-o", nxt2]
        rc, _ = run(cmd, os.path.join(jdir, "goto-cc2.log"), 300, 8)
        if rc != 0:
            return None, open(os.path.join(jdir, "goto-cc2.log")).read()[-3000:]
        cur = nxt2
    gi = job.get("instrument", [])
    for i, step in enumerate(gi):
        nxt = os.path.join(jdir, "h%d.gb" % i)
        rc, _ = run(["goto-instrument"] + step + [cur, nxt], os.path.join(jdir, "gi%d.log" % i), 300, 8)
        if rc != 0:
            return None, open(os.path.join(jdir, "gi%d.log" % i)).read()[-3000:]
        cur = nxt
    return cur, ""


def cbmc_cmd(job, gb, extra):
    c = ["cbmc", gb, "--json-ui"] + CBMC_BASE + BACKENDS[job.get("backend", "sat")]
    # arrays up to this size are tracked element-wise (keeps copied constants constant; DESIGN R1);
    # harnesses that index byte buffers with SYMBOLIC offsets set a small value instead
    c += ["--max-field-sensitivity-array-size", str(job.get("fs_array", 1024))]
    c += ["--function", job.get("entry", "harness")]
    if "unwind" in job:
        c += ["--unwind", str(job["unwind"])]
    if job.get("unwindset"):
        c += ["--unwindset", ",".join(job["unwindset"])]
    if job.get("leak"):
        c += ["--memory-leak-check"]
    c += job.get("cbmc", []) + extra
    return c


def reachable_functions(gb, jdir, entry):
    """Functions with bodies reachable from the entry, defined in /repo (evidence only)."""
    out = os.path.join(jdir, "callgraph.txt")
    try:
        # make `entry` the entry point first so that reachability is from the harness
        rc, _ = run(["goto-instrument", "--reachable-call-graph", gb], out, 120, 8)
        names = set()
        for line in open(out):
            m = re.match(r"^(\S+) -> (\S+)$", line.strip())
            if m:
                names.add(m.group(1))
                names.add(m.group(2))
        return names
    except Exception:
        return set()


def repo_functions(gb, jdir):
    """name -> file for every function with a body whose source is under /repo."""
    out = os.path.join(jdir, "symbols.json")
    res = {}
    try:
        run(["goto-instrument", "--show-symbol-table", "--json-ui", gb], out, 120, 8)
        data = json.load(open(out))
        for el in data:
            if "symbolTable" in el:
                for name, s in el["symbolTable"].items():
                    loc = s.get("location", {})
                    if "namedSub" in loc:   # irep form
                        f = loc["namedSub"].get("file", {}).get("id", "")
                        wd = loc["namedSub"].get("working_directory", {}).get("id", "")
                    else:                   # plain form (cbmc 6.x --json-ui)
                        f = loc.get("file", "")
                        wd = loc.get("workingDirectory", "")
                    t = s.get("type", {}).get("id")
                    if t == "code" and s.get("value", {}).get("id") not in (None, "nil"):
                        full = f if f.startswith("/") else os.path.join(wd, f)
                        if full.startswith(REPO + "/"):
                            res[name] = os.path.relpath(full, REPO)
    except Exception:
        pass
    return res


def native_replay(job, prop, jdir, rdir, vals, extra_defs):
    """Compile the same harness + real TUs natively with ASan/UBSan and replay the choice sequence."""
    if job.get("native") is False or job.get("instrument") or job.get("replace"):
        return "skipped", "job not natively replayable (uses goto-instrument body replacement or CBMC-only primitives)"
    h, real, sup = src_paths(job, prop)
    exe = os.path.join(rdir, "replay.bin")
    vf = os.path.join(rdir, "values.txt")
    with open(vf, "w") as f:
        f.write("\n".join(str(v) for v in vals) + "\n")
    cmd = ["gcc", "-std=gnu99", "-g", "-O0", "-w", "-fsanitize=address,undefined", "-fno-sanitize-recover=all",
           "-DVP_NATIVE"] + BASE_DEFS + include_flags(prop) + job.get("defines", []) + extra_defs + \
        ["-Dharness=vp_harness_entry", h] + real + sup + [os.path.join(COMMON, "native_main.c"), "-o", exe, "-lm",
                                                         "-lpthread"]
    with open(os.path.join(rdir, "replay_build.txt"), "w") as f:
        f.write(" ".join(cmd) + "\n")
    rc, _ = run(cmd, os.path.join(rdir, "replay_build.log"), 300, 16)
    if rc != 0:
        # functions referenced by real TUs but not reached by the harness: link aborting placeholders
        log = open(os.path.join(rdir, "replay_build.log"), errors="replace").read()
        syms = sorted(set(re.findall(r"undefined reference to `([A-Za-z_][A-Za-z0-9_]*)'", log)))
        if not syms:
            return "skipped", "native build failed: " + log[-800:]
        uf = os.path.join(rdir, "unlinked.c")
        with open(uf, "w") as f:
            f.write("void vp_native_unlinked(const char *);\n")
            for sy in syms:
                f.write("void %s(void) { vp_native_unlinked(\"%s\"); }\n" % (sy, sy))
        rc, _ = run(cmd[:-1] + [uf], os.path.join(rdir, "replay_build.log"), 300, 16)
        if rc != 0:
            return "skipped", "native build failed: " + open(os.path.join(rdir, "replay_build.log")).read()[-800:]
    env = dict(os.environ)
    env["VP_VALUES"] = vf
    env["ASAN_OPTIONS"] = "detect_leaks=%d:abort_on_error=0:exitcode=98" % (1 if job.get("leak") else 0)
    env["UBSAN_OPTIONS"] = "halt_on_error=1:exitcode=97:print_stacktrace=1"
    log = os.path.join(rdir, "replay_run.log")
    with open(log, "w") as fo:
        try:
            p = subprocess.run([exe], stdout=fo, stderr=subprocess.STDOUT, env=env, timeout=60)
            rc = p.returncode
        except subprocess.TimeoutExpired:
            rc = -9
    txt = open(log, errors="replace").read()
    if rc == 0:
        return "not-reproduced", "native run completed cleanly"
    if rc == 78 or rc == 127:
        return "skipped", "native run reached a function that is not linked natively: " + txt[-300:]
    if rc == 77:
        return "diverged", "native run left the assumed region (address-dependent choice)"
    return "confirmed", "native exit %d: %s\n...\n%s" % (rc, txt[:1500], txt[-300:])


def run_job(prop, job, tier, kf_defs, keep):
    """Returns a result dict."""
    name = job["name"]
    jdir = os.path.join(WORK, prop, re.sub(r"[^A-Za-z0-9_.-]", "_", name))
    shutil.rmtree(jdir, ignore_errors=True)
    os.makedirs(jdir)
    r = {"job": name, "bound": job.get("bound", ""), "status": "error", "violations": [], "detail": "",
         "obligations": 0, "discharged": 0, "witness_reached": [], "solver_s": 0.0, "functions": [],
         "backend": job.get("backend", "sat")}
    t0 = time.time()
    gb, err = build_goto(job, prop, jdir, kf_defs)
    if gb is None:
        r["detail"] = "build failed: " + err
        return r
    out = os.path.join(jdir, "cbmc.json")
    tmo = job.get("timeout", 240 if tier == "quick" else 1800)
    mem = job.get("mem_gb", 6 if tier == "quick" else 12)
    rc, dt = run(cbmc_cmd(job, gb, []), out, tmo, mem)
    # an unwindset entry naming a function that --drop-unused-functions removed is a user-input error in CBMC:
    # drop that entry and retry (shared unwindset lists across job variants)
    for _ in range(12):
        if rc != 1:
            break
        m = re.search(r"invalid loop identifier ([A-Za-z0-9_.$]+)", open(out, errors="replace").read())
        if not m:
            break
        bad = m.group(1)
        job = dict(job)
        job["unwindset"] = [u for u in job.get("unwindset", []) if u.rsplit(":", 1)[0] != bad]
        rc, dt = run(cbmc_cmd(job, gb, []), out, tmo, mem)
    r["solver_s"] = round(dt, 2)
    if rc == -9:
        r["status"] = "noverdict"
        r["detail"] = ("timeout after %ds of CPU" % tmo) if dt >= tmo - 1 else "solver process killed after %.0fs (SIGKILL: out of memory?)" % dt
        return r
    props, status, msgs = parse_cbmc_json(out)
    if props is None:
        r["status"] = "noverdict"
        r["detail"] = "cbmc rc=%s (out of memory / front-end error?) %s %s" % (rc, msgs, open(out, errors="replace").read()[-600:])
        return r
    wr, wm, bf, rf, nob, nok, unk = classify(props)
    # Loops whose iteration bound IS the claim (job field termination_loops: list of loop ids such as
    # "ares_dns_name_parse.0"): the job's unwind value for them is an upper bound DERIVED from the code for inputs of the
    # job's size (stated in the job's bound text), so exceeding it is not "our bound was too small" but the loop doing
    # more work than any terminating run can - non-termination / unbounded work on a bounded input: a violation.
    tl = job.get("termination_loops") or []
    if tl:
        keep_bf = []
        for p in bf:
            pid = p.get("property", "")
            m = re.match(r"^(.*)\.unwind\.(\d+)$", pid)
            if m and ("%s.%s" % (m.group(1), m.group(2))) in tl:
                p = dict(p)
                p["description"] = ("PROP:loop %s.%s terminates within the iteration bound derived for inputs of this size "
                                    "(exceeded: non-termination or unbounded work on a bounded input)" % (m.group(1), m.group(2)))
                rf.append(p)
            else:
                keep_bf.append(p)
        bf = keep_bf
    r["obligations"], r["discharged"], r["witness_reached"] = nob, nok, wr
    r["ssa_steps"], r["vccs"] = cbmc_sizes(out)
    # functions encoded (evidence)
    try:
        fmap = repo_functions(gb, jdir)
        reach = reachable_functions(gb, jdir, job.get("entry", "harness"))
        r["functions"] = sorted(n for n in fmap if (not reach) or n in reach)
    except Exception:
        pass
    if bf:
        r["status"] = "bound"
        r["detail"] = "bound exceeded: " + "; ".join("%s [%s]" % (p["property"], p.get("description", "")) for p in bf[:6])
        if not rf:
            return r
    if rf:
        r["status"] = "violation"
        # group by assertion, trace the first few
        for p in rf[:2]:
            pid = p["property"]
            rdir = os.path.join(WORK if SCRATCH else VERIF, "replays", prop, re.sub(r"[^A-Za-z0-9_.-]", "_", name + "." + pid))
            shutil.rmtree(rdir, ignore_errors=True)
            os.makedirs(rdir)
            tout = os.path.join(rdir, "cbmc_trace.json")
            run(cbmc_cmd(job, gb, ["--trace", "--property", pid]), tout, tmo, mem)
            tp, _, _ = parse_cbmc_json(tout)
            vals, summ = [], []
            if tp:
                for q in tp:
                    if q.get("property") == pid and "trace" in q:
                        vals = trace_values(q["trace"])
                        summ = trace_summary(q["trace"])
            verdict, why = native_replay(job, prop, jdir, rdir, vals, kf_defs)
            sl = p.get("sourceLocation", {})
            info = {"property": prop, "job": name, "cbmc_property": pid, "description": p.get("description"),
                    "file": sl.get("file"), "line": sl.get("line"), "function": sl.get("function"),
                    "bound": job.get("bound", ""), "choices": vals, "native_replay": verdict, "native_detail": why,
                    "cbmc_cmd": " ".join(cbmc_cmd(job, "<h.gb>", ["--trace", "--property", pid])),
                    "trace": summ}
            json.dump(info, open(os.path.join(rdir, "violation.json"), "w"), indent=1)
            try:
                os.remove(tout)
            except OSError:
                pass
            r["violations"].append({"cbmc_property": pid, "description": p.get("description"),
                                    "where": "%s:%s" % (sl.get("file"), sl.get("line")), "replay": rdir,
                                    "native": verdict})
        r["all_failed"] = ["%s [%s]" % (p["property"], p.get("description", "")) for p in rf[:40]]
        return r
    if unk:
        r["status"] = "noverdict"
        r["detail"] = "%d properties left UNKNOWN by CBMC without any FAILURE" % len(unk)
        return r
    # vacuity guard: the job's required witnesses (default: the one named "end", placed after the last
    # assertion of the main path) must be reported reachable
    need = set(job.get("witnesses", ["end"]))
    r["witness_missed"] = wm
    if need - set(wr):
        r["status"] = "vacuous"
        r["detail"] = "witness not reached: " + ", ".join(sorted(need - set(wr)))
        return r
    r["status"] = "held"
    if not keep:
        # disk is limited: a held job leaves nothing behind (its numbers are in the evidence file)
        shutil.rmtree(jdir, ignore_errors=True)
    r["wall_s"] = round(time.time() - t0, 2)
    return r


def load_jobs(prop, tier, seed):
    p = os.path.join(VERIF, "harness", prop, "jobs.py")
    spec = importlib.util.spec_from_file_location("jobs_" + prop, p)
    m = importlib.util.module_from_spec(spec)
    spec.loader.exec_module(m)
    return m


def main():
    a = sys.argv[1:]
    if not a:
        raise SystemExit(__doc__)
    prop = a[0]
    tier = os.environ.get("VERIF_TIER", "quick")
    only = None
    keep = False
    replay = None
    i = 1
    while i < len(a):
        if a[i] == "--tier":
            tier = a[i + 1]; i += 2
        elif a[i] == "--only":
            only = a[i + 1]; i += 2
        elif a[i] == "--replay":
            replay = a[i + 1]; i += 2
        elif a[i] == "--keep":
            keep = True; i += 1
        else:
            raise SystemExit("unknown arg " + a[i])
    seed = int(os.environ.get("VERIF_SEED", "0") or 0)
    if replay:
        v = json.load(open(os.path.join(replay, "violation.json")))
        print(json.dumps({k: v[k] for k in v if k != "trace"}, indent=1))
        print("\n".join(v.get("trace", [])))
        exe = os.path.join(replay, "replay.bin")
        if os.path.exists(exe):
            env = dict(os.environ); env["VP_VALUES"] = os.path.join(replay, "values.txt")
            sys.exit(1 if subprocess.run([exe], env=env).returncode != 0 else 0)
        sys.exit(1)
    t0 = time.time()
    mod = load_jobs(prop, tier, seed)
    jobs = mod.jobs(tier, seed)
    if only:
        jobs = [j for j in jobs if only in j["name"]]
    kf_all = json.load(open(os.path.join(VERIF, "known_findings.json")))
    kfs = [k for k in kf_all.get("findings", []) if k["property"] == prop and k.get("kind", "open") == "open"]
    os.makedirs(os.path.join(WORK, prop), exist_ok=True)
    cfg_dir()
    # Main pass: every job with all open known findings excluded (-DKF_<id>), so any OTHER violation shows.
    # Second pass per known finding: only that finding's region (-DKFONLY_<id>) to confirm it is still there.
    tasks = []
    for j in jobs:
        mine = [k for k in kfs if k["job"] == j["name"] or k["job"] == j.get("kf_group")]
        tasks.append((j, ["-DKF_" + k["id"] for k in mine], None))
        for k in mine:
            j2 = dict(j); j2["name"] = j["name"] + "#KFONLY_" + k["id"]
            tasks.append((j2, ["-DKFONLY_" + k["id"]], k))
    workers = int(os.environ.get("VP_WORKERS", "0") or 0) or min(12, max(1, len(tasks)))
    results = []
    with cf.ThreadPoolExecutor(max_workers=workers) as ex:
        futs = {ex.submit(run_job, prop, j, tier, d, keep): (j, k) for (j, d, k) in tasks}
        for f in cf.as_completed(futs):
            j, k = futs[f]
            try:
                r = f.result()
            except Exception as e:  # pragma: no cover
                r = {"job": j["name"], "status": "error", "detail": repr(e), "violations": [], "obligations": 0,
                     "discharged": 0, "witness_reached": [], "solver_s": 0, "functions": [], "bound": ""}
            r["kf"] = k
            results.append(r)
            print("  [%s] %-52s %6.1fs  ob=%d %s" % (r["status"], r["job"][:52], r.get("solver_s", 0), r["obligations"],
                                                     r.get("detail", "")[:160]), flush=True)
    results.sort(key=lambda r: r["job"])
    exit_code = 0
    nviol = 0
    kf_lines = []
    for r in results:
        k = r["kf"]
        if k is not None:
            # confirmation run of a known finding
            if r["status"] == "violation":
                kf_lines.append("KNOWN-FINDING: property=%s %s" % (prop, k["what"]))
            elif r["status"] in ("held", "vacuous"):
                print("note: known finding %s no longer reproduces (repaired?)" % k["id"])
            else:
                print("INCONCLUSIVE known-finding confirmation %s: %s %s" % (k["id"], r["status"], r.get("detail", "")))
                exit_code = max(exit_code, 2)
            continue
        if r["status"] == "violation":
            nviol += len(r["violations"])
            for v in r["violations"]:
                print("VIOLATION property=%s replay=%s  (%s: %s at %s; native replay: %s)" %
                      (prop, v["replay"], r["job"], v["description"], v["where"], v["native"]))
            exit_code = 1 if exit_code != 1 else 1
        elif r["status"] != "held":
            print("INCONCLUSIVE %s: %s %s" % (r["job"], r["status"], r.get("detail", "")[:400]))
            if exit_code == 0:
                exit_code = 2
    for l in sorted(set(kf_lines)):
        print(l)
    main_res = [r for r in results if r["kf"] is None]
    held = [r for r in main_res if r["status"] == "held"]
    funcs = sorted(set(f for r in main_res for f in r.get("functions", [])))
    ev = {
        "property_id": prop, "tier": tier, "seed": seed, "level": "model_checking",
        "coverage": {
            "evaluations": len(results),
            "distinct_nontrivial": len(set(r["job"] for r in held if r["witness_reached"])),
            "rule": "one evaluation = one CBMC run (goto-cc of /repo's current sources + harness, symbolic execution, "
                    "SAT/SMT decision of every generated obligation within the stated bound); non-trivial = all of the "
                    "job's reachability witnesses (assert(0) twins on the paths of interest) were reported reachable",
            "samples": [{"job": r["job"], "verdict": r["status"], "bound": r.get("bound", ""),
                         "obligations": r["obligations"], "discharged": r["discharged"],
                         "witnesses_reached": r["witness_reached"], "backend": r.get("backend", "sat"),
                         "solver_s": r.get("solver_s", 0)} for r in main_res],
            # model-checking keys: symbolic states = SSA steps of the unrolled programs (each is one symbolic program state
            # transformer), transitions = verification conditions generated from them; counterexample traces replayed
            # natively against the real code (0 on a tree where everything holds)
            "states": max(1, sum(r.get("ssa_steps", 0) for r in main_res)),
            "transitions": max(1, sum(r.get("vccs", 0) for r in main_res)),
            "traces_validated_against_impl": sum(1 for r in results for v in r.get("violations", []) if v.get("native") == "confirmed"),
            "obligations": sum(r["obligations"] for r in main_res),
            "discharged": sum(r["discharged"] for r in main_res),
            "functions_encoded": funcs,
            "solver_time_s": round(sum(r.get("solver_s", 0) for r in results), 1),
            "checker_cmd": "cbmc <h.gb> " + " ".join(CBMC_BASE),
            "known_findings_reported": sorted(set(kf_lines)),
            "outside_bound": getattr(mod, "OUTSIDE", ""),
            "exhaustive": False,
        },
        "assumptions": list(getattr(mod, "ASSUMPTIONS", [])) + [
            "CBMC 6.11.0 front end/symex/back end; x86_64 LP64; config headers generated by cmake for this sandbox",
            "allocator = harness/common/valloc.c (never fails unless the job says so), memcpy/memmove = explicit loops"],
        "wall_s": round(time.time() - t0, 1),
        "violations": nviol,
    }
    evdir = os.path.join(WORK if SCRATCH else VERIF, "evidence")
    os.makedirs(evdir, exist_ok=True)
    if not only or SCRATCH:  # a filtered run never overwrites the property's evidence
        json.dump(ev, open(os.path.join(evdir, prop + ".json"), "w"), indent=1)
    print("%s: %d jobs, %d held, %d violations, exit %d, %.0fs" % (prop, len(main_res), len(held), nviol, exit_code,
                                                                   time.time() - t0))
    sys.exit(exit_code)


if __name__ == "__main__":
    main()
