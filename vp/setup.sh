#!/bin/sh
# Offline setup: generate ares_config.h / ares_build.h for the goto-cc builds (configure only; nothing is fetched).
cd "$(dirname "$0")/.." || exit 1
mkdir -p .work evidence
if [ ! -f .work/cfg/ares_config.h ]; then
  cmake -S "${VP_REPO:-/repo}" -B .work/cfg -DCARES_BUILD_TESTS=OFF -DCARES_BUILD_TOOLS=OFF \
        -DCMAKE_BUILD_TYPE=RelWithDebInfo > .work/cfg.log 2>&1 || echo "cmake configure failed; checks fall back to /repo/_build headers"
fi
cbmc --version
exit 0
