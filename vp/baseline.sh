#!/bin/sh
# Runs the repository's pinned test suite on /repo's current tree with the verification guard OFF
# (the guard CARES_VERIF is never defined by the CMake build).  Prints the pass/fail summary.
set -e
REPO=${VP_REPO:-/repo}
if [ ! -f "$REPO/_build/build.ninja" ] && [ ! -f "$REPO/_build/Makefile" ]; then
  cmake -G Ninja -S "$REPO" -B "$REPO/_build" -DCARES_BUILD_TESTS=ON -DCMAKE_BUILD_TYPE=RelWithDebInfo >/dev/null
fi
cmake --build "$REPO/_build" -j16 >/dev/null
ctest --test-dir "$REPO/_build" -j8 --timeout 900 --output-junit /tmp/vp_baseline_junit.xml "$@"
