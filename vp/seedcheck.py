#!/usr/bin/env python3
"""seedcheck.py <dir-with-patch-and-demo> <PID> <n> [--skip-suite] [--note text]
Confirms a seeded change (produced by an independent sub-agent that saw only the property text) against the CURRENT
/repo HEAD, in a scratch worktree /tmp/sc_tree (created on demand, removed by `seedcheck.py --cleanup`):
 (1) demo passes on the clean tree, (2) patch applies, (3) demo fails with the patch, (4) the repository's test suite
 passes exactly as on the clean tree, (5) ./check <PID> (VP_REPO=patched tree) reports VIOLATION or not.
Records everything in /verif/seeded/<PID>_<n>/meta.json (patch.diff, demo and scripts are copied there)."""
import json, os, shutil, subprocess, sys, time
SC = "/tmp/sc_tree"
def sh(cmd, cwd=None, timeout=7200):
    r = subprocess.run(cmd, shell=True, cwd=cwd, stdout=subprocess.PIPE, stderr=subprocess.STDOUT, timeout=timeout)
    return r.returncode, r.stdout.decode(errors="replace")
if "--cleanup" in sys.argv:
    sh("git -C /repo worktree remove --force %s" % SC); sys.exit(0)
src, pid, n = sys.argv[1], sys.argv[2], sys.argv[3]
skip_suite = "--skip-suite" in sys.argv
note = sys.argv[sys.argv.index("--note") + 1] if "--note" in sys.argv else None
dst = os.path.join("/verif/seeded", "%s_%s" % (pid, n))
if os.path.abspath(src) != os.path.abspath(dst):
    os.makedirs(dst, exist_ok=True)
    for f in os.listdir(src):
        p = os.path.join(src, f)
        if os.path.isfile(p) and os.path.getsize(p) < 2_000_000 and not f.endswith((".o", ".bin")) and f != "demo":
            shutil.copy(p, os.path.join(dst, f))
head = sh("git -C /repo rev-parse --short HEAD")[1].strip()
if not os.path.exists(SC):
    sh("git -C /repo worktree add --detach %s HEAD" % SC)
    sh("cmake -G Ninja -S . -B _build -DCARES_BUILD_TESTS=ON -DCMAKE_BUILD_TYPE=RelWithDebInfo", SC)
sh("git checkout -q --detach %s && git checkout -- ." % head, SC)
def passing(f):
    d = json.load(open(f)); s = set()
    for ts in d["testsuites"]:
        for t in ts["testsuite"]:
            if t.get("result") == "COMPLETED" and not t.get("failures"): s.add(ts["name"] + "::" + t["name"])
    return s
base_json = "/tmp/sc_base_%s.json" % head
if not skip_suite and not os.path.exists(base_json):
    sh("cmake --build _build -j8", SC)
    sh("../bin/arestest --gtest_output=json:%s >/dev/null 2>&1; true" % base_json, os.path.join(SC, "_build", "test"))
def demo():
    rc, o = sh("sh ./build.sh %s" % SC, dst, timeout=900)
    if rc != 0:
        return None, "build failed: " + o[-600:]
    if os.path.exists(os.path.join(dst, "run.sh")):
        rc, o = sh("sh ./run.sh", dst, timeout=900)
        if rc in (126, 127, 2) or "usage" in o.lower():
            rc, o = sh("sh ./run.sh %s" % SC, dst, timeout=900)
    else:
        rc, o = sh("./demo", dst, timeout=900)
    return rc, o[-800:]
meta = {"property": pid, "repo_head": head,
        "source": "independent sub-agent given only the property text and its own scratch worktree (no access to /verif)"}
if note: meta["note"] = note
old = os.path.join(dst, "meta.json")
if os.path.exists(old):
    try:
        prev = json.load(open(old))
        if skip_suite and "suite_pass_after" in prev:   # suite comparison is carried over from the run that made it
            for k in ("suite_pass_before", "suite_pass_after", "suite_newly_failing"): meta[k] = prev.get(k)
            meta["suite_compared_at_head"] = prev.get("suite_compared_at_head", prev.get("repo_head"))
        meta["history"] = prev.get("history", []) + [{k: prev.get(k) for k in ("repo_head", "detected", "check_summary", "note") if k in prev}]
    except Exception: pass
rc0, o0 = demo()
meta["demo_clean_exit"], meta["demo_clean_tail"] = rc0, o0
rc, o = sh("git apply %s" % os.path.join(dst, "patch.diff"), SC)
meta["patch_applies"] = (rc == 0); meta["patch_apply_msg"] = o[-300:]
try:
    rc1, o1 = demo()
    meta["demo_patched_exit"], meta["demo_patched_tail"] = rc1, o1
    if not skip_suite:
        sh("cmake --build _build -j8", SC)
        aj = "/tmp/sc_after_%s_%s.json" % (pid, n)
        sh("../bin/arestest --gtest_output=json:%s >/dev/null 2>&1; true" % aj, os.path.join(SC, "_build", "test"))
        a, b = passing(base_json), passing(aj)
        meta["suite_pass_before"], meta["suite_pass_after"], meta["suite_newly_failing"] = len(a), len(b), sorted(a - b)[:10]
    t0 = time.time()
    rc, o = sh("VP_REPO=%s VP_WORK=/tmp/seedwork_%s_%s VP_WORKERS=8 /verif/check %s" % (SC, pid, n, pid), "/verif")
    meta["check_exit"] = rc
    meta["check_violations"] = [l[:320] for l in o.splitlines() if l.startswith("VIOLATION")][:8]
    meta["check_summary"] = [l for l in o.splitlines() if l.startswith(pid + ":")]
    meta["check_inconclusive"] = [l[:200] for l in o.splitlines() if l.startswith("INCONCLUSIVE")][:8]
    meta["check_wall_s"] = round(time.time() - t0)
    shutil.rmtree("/tmp/seedwork_%s_%s" % (pid, n), ignore_errors=True)
finally:
    sh("git checkout -- . && git clean -fdq src include", SC)
    for f in ("demo",):
        try: os.remove(os.path.join(dst, f))
        except OSError: pass
meta["valid_seed"] = bool(rc0 == 0 and meta["patch_applies"] and meta.get("demo_patched_exit") not in (0, None) and not meta.get("suite_newly_failing"))
meta["detected"] = bool(meta.get("check_exit") == 1 and meta.get("check_violations"))
meta["ran"] = ["sh build.sh <tree> && sh run.sh  (clean tree at %s: exit %s; with patch.diff applied: exit %s)" % (head, rc0, meta.get("demo_patched_exit")),
               "git apply patch.diff; cmake --build; arestest: set of passing tests compared with the clean tree",
               "VP_REPO=<patched tree> ./check %s" % pid]
json.dump(meta, open(os.path.join(dst, "meta.json"), "w"), indent=1)
print(pid, n, "valid_seed=%s detected=%s" % (meta["valid_seed"], meta["detected"]), meta.get("check_summary"), "clean=%s patched=%s newly_failing=%s"
      % (rc0, meta.get("demo_patched_exit"), meta.get("suite_newly_failing")))
for v in meta.get("check_violations", [])[:3]: print("   ", v[:250])
