#!/usr/bin/env python3
"""seedcheck.py <worktree> <n> <PID> [--skip-suite]
Confirms a seeded change produced by an independent sub-agent in <worktree>/out/<n>/ and records it under
/verif/seeded/<PID>_<n>/ : (1) demo passes on the clean worktree, (2) patch applies, (3) demo fails with the patch,
(4) the repository's test suite still passes with the patch (same passing set as the clean worktree),
(5) runs ./check <PID> against the patched tree (VP_REPO) and records whether it reports VIOLATION."""
import json, os, shutil, subprocess, sys, time
wt, n, pid = sys.argv[1], sys.argv[2], sys.argv[3]
skip_suite = "--skip-suite" in sys.argv
src = os.path.join(wt, "out", n)
dst = os.path.join("/verif/seeded", "%s_%s" % (pid, n))
os.makedirs(dst, exist_ok=True)
for f in os.listdir(src):
    p = os.path.join(src, f)
    if os.path.isfile(p) and os.path.getsize(p) < 2_000_000 and not f.endswith((".o", ".bin")) and f not in ("demo",):
        shutil.copy(p, os.path.join(dst, f))
def sh(cmd, cwd=None, timeout=3600):
    r = subprocess.run(cmd, shell=True, cwd=cwd, stdout=subprocess.PIPE, stderr=subprocess.STDOUT, timeout=timeout)
    return r.returncode, r.stdout.decode(errors="replace")
meta = {"property": pid, "source": "independent sub-agent given only the property text and a scratch worktree", "ran": []}
rc, o = sh("git status --porcelain --untracked-files=no", wt)
assert o.strip() == "", "worktree not clean: " + o
def demo(tag):
    rc, o = sh("sh ./build.sh %s" % wt, src)
    if rc != 0:
        return None, "build failed: " + o[-600:]
    run = "sh ./run.sh %s" % wt if os.path.exists(os.path.join(src, "run.sh")) else "./demo"
    rc, o = sh(run, src, timeout=600)
    return rc, o[-800:]
rc0, o0 = demo("clean")
meta["demo_clean_exit"] = rc0; meta["demo_clean_tail"] = o0
rc, o = sh("git apply %s" % os.path.join(src, "patch.diff"), wt)
meta["patch_applies"] = (rc == 0)
try:
    rc1, o1 = demo("patched")
    meta["demo_patched_exit"] = rc1; meta["demo_patched_tail"] = o1
    if not skip_suite:
        rc, o = sh("cmake --build _build -j6 2>&1 | tail -3", wt)
        rc, o = sh("../bin/arestest --gtest_output=json:/tmp/seed_%s_%s.json >/dev/null 2>&1; echo done" % (pid, n), os.path.join(wt, "_build", "test"))
        base = "/tmp/%s_base.json" % pid
        def passing(f):
            d = json.load(open(f)); s = set()
            for ts in d["testsuites"]:
                for t in ts["testsuite"]:
                    if t.get("result") == "COMPLETED" and not t.get("failures"): s.add(ts["name"] + "::" + t["name"])
            return s
        if os.path.exists(base):
            a, b = passing(base), passing("/tmp/seed_%s_%s.json" % (pid, n))
            meta["suite_pass_before"] = len(a); meta["suite_pass_after"] = len(b); meta["suite_newly_failing"] = sorted(a - b)[:10]
        else:
            meta["suite_note"] = "no baseline json " + base
    t0 = time.time()
    env = "VP_REPO=%s VP_WORK=/tmp/seedwork_%s_%s VP_WORKERS=6" % (wt, pid, n)
    rc, o = sh("%s /verif/check %s" % (env, pid), "/verif", timeout=7200)
    meta["check_exit"] = rc
    meta["check_violations"] = [l[:300] for l in o.splitlines() if l.startswith("VIOLATION")][:8]
    meta["check_summary"] = [l for l in o.splitlines() if l.startswith(pid + ":")]
    meta["check_inconclusive"] = [l[:200] for l in o.splitlines() if l.startswith("INCONCLUSIVE")][:8]
    meta["check_wall_s"] = round(time.time() - t0)
    shutil.rmtree("/tmp/seedwork_%s_%s" % (pid, n), ignore_errors=True)
finally:
    sh("git checkout -- . ", wt)
meta["valid_seed"] = (rc0 == 0 and meta["patch_applies"] and meta.get("demo_patched_exit") not in (0, None) and not meta.get("suite_newly_failing"))
meta["detected"] = meta.get("check_exit") == 1 and bool(meta.get("check_violations"))
meta["ran"] = ["sh build.sh <tree>; sh run.sh <tree> (clean: exit %s; patched: exit %s)" % (rc0, meta.get("demo_patched_exit")),
               "git apply patch.diff; cmake --build; arestest pass-set comparison", "VP_REPO=<patched tree> ./check %s" % pid]
json.dump(meta, open(os.path.join(dst, "meta.json"), "w"), indent=1)
print(json.dumps({k: meta[k] for k in ("valid_seed", "detected", "demo_clean_exit", "demo_patched_exit", "check_exit", "check_summary", "check_violations", "check_inconclusive", "suite_newly_failing") if k in meta}, indent=1)[:3000])
