#!/usr/bin/env python3
"""show.py Cxx job : list non-SUCCESS CBMC properties of the last run of a job."""
import json, os, re, sys
W = os.environ.get("VP_WORK") or os.path.join(os.path.dirname(os.path.dirname(os.path.abspath(__file__))), ".work")
d = json.load(open(os.path.join(W, sys.argv[1], re.sub(r"[^A-Za-z0-9_.-]", "_", sys.argv[2]), "cbmc.json")))
for el in d:
    if "result" in el:
        for p in el["result"]:
            if p["status"] != "SUCCESS":
                sl = p.get("sourceLocation", {})
                print(p["status"], p["property"], "|", p.get("description"), "|", sl.get("file"), sl.get("line"))
    if el.get("messageType") == "ERROR":
        print("ERROR", el.get("messageText"))
