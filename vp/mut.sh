#!/bin/sh
# mut.sh <Cxx> <only-substring|-> <file-relative-to-repo> <python-expr old=>new as two args>
# Applies a one-off textual mutation to a scratch copy of /repo and runs the property's check against it.
# usage: vp/mut.sh C20 write src/lib/ares_conn.c 'count += 2;' 'count += 1;'
P=$1; ONLY=$2; F=$3; OLD=$4; NEW=$5
D=$(mktemp -d /tmp/mut_XXXXXX)
mkdir -p $D/repo
(cd /repo && tar cf - --exclude=_build --exclude=.git . ) | (cd $D/repo && tar xf -)
python3 - "$D/repo/$F" "$OLD" "$NEW" <<'PY'
import sys
p,old,new=sys.argv[1:4]
s=open(p).read()
c=s.count(old)
if c!=1:
    print("MUTATION NOT APPLIED: pattern occurs %d times"%c); sys.exit(3)
open(p,'w').write(s.replace(old,new))
PY
[ $? -eq 0 ] || { rm -rf $D; exit 3; }
if [ "$ONLY" = "-" ]; then
  VP_REPO=$D/repo VP_WORK=$D/work "$(dirname "$0")/../check" $P | grep -v "^\s*\[held\]" | cut -c1-260
else
  VP_REPO=$D/repo VP_WORK=$D/work "$(dirname "$0")/../check" $P --only "$ONLY" | grep -v "^\s*\[held\]" | cut -c1-260
fi
rm -rf $D
