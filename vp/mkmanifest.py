#!/usr/bin/env python3
"""Regenerates /verif/MANIFEST.json from the table below (single source of truth for claims)."""
import json, os
V = os.path.dirname(os.path.dirname(os.path.abspath(__file__)))
TECH = "bounded symbolic execution of the real C translation units with CBMC 6.11 (goto-cc build of /repo's current tree, SAT/SMT back end), counterexamples replayed natively under ASan/UBSan"
CLAIMS = {
 "C19": dict(
  text="Bounded model checking (CBMC) of the real container code: ONE operation from an ARBITRARY state satisfying the "
       "representation invariant, compared with a reference model, invariant re-established (inductive step, so "
       "operation sequences of any length are covered for the stated sizes). All values inside the bound are decided "
       "by the solver; nothing outside it is claimed.",
  design="DESIGN.md §4 C19",
  note="Assumes: representation invariants in harness/C19 (checked inductive); allocator/memcpy stubs of "
       "harness/common; sizes as listed per job in the evidence (alloc_cnt<=8, member_size<=2 quick/4 thorough, ...)."),
 "C01": dict(
  text="Bounded model checking (CBMC) of the real request life-cycle control code, decided modularly: ares_cancel/end_query/"
       "ares_free_query/ares_requeue_query from an arbitrary valid link state with callbacks that re-enter ares_cancel or "
       "start requests; the whole search state machine (ares_search.c) one step at a time with ares_send_nolock as a "
       "contract stub covering every status code; one level of ares_send_query / ares_close_connection / read_answers / "
       "ares_destroy with re-entrant callbacks; the getaddrinfo walk one step at a time; the compound entry points "
       "(ares_query, gethostbyaddr, getnameinfo, gethostbyname(_file)) start and completion steps. Exactly-once "
       "completion is a ghost counter; use-after-release and double free are CBMC pointer checks; counterexamples are "
       "replayed natively under ASan.",
  design="DESIGN.md §4 C01",
  note="Assumes the module contracts listed in the evidence (reference containers slist_ref/szvp_ref, abstract DNS records, "
       "G-send contract of ares_send_nolock, induction hypothesis for nested search callbacks); <= 2 (quick) / 3 (thorough) "
       "live queries, re-entry depth 1."),
 "C06": dict(
  text="Bounded model checking (CBMC) of the real timeout arithmetic (ares_calc_query_timeout, ares_metrics_server_timeout, "
       "timeadd, ares_timedout) for ALL option values in their legal int ranges, all try counts within the retry budget, "
       "arbitrary metrics history and jitter: no shift/overflow/conversion UB, result within [base, maxtimeout].",
  design="DESIGN.md §4 C06",
  note="Assumes clock within [0,2^40] s, 1..16 servers. The retry-budget half is assembled from one-step obligations "
       "(requeue_step: budget check and try accounting; answer_step: one EDNS downgrade / one TCP upgrade outside the "
       "budget; flush_requeue_two: every deferred resend handed on exactly once; C17 validate jobs: <= 3 BADCOOKIE "
       "resends) listed in harness/C06/jobs.py; their composition over whole histories is by induction, not a run."),
 "C20": dict(
  text="Bounded model checking (CBMC) of the real transport code as two one-step obligations from ARBITRARY buffer states: "
       "(A) read_answers delivers exactly the complete frames present, whole/in order/once, keeping the incomplete tail; "
       "(B) read_conn_packets appends exactly what the socket returned (TCP chunk of any size; UDP datagram incl. zero "
       "length, foreign source dropped); (C) ares_conn_flush offers exactly the queued bytes and advances by what the "
       "socket accepted (any partial write), write interest iff bytes remain. (A)+(B) give chopping independence by "
       "induction over read events.",
  design="DESIGN.md §4 C20",
  note="Assumes the virtual socket layer (vsock.c) behind channel->sock_funcs, reference containers, parser replaced by a "
       "recorder; buffers <= 12 bytes, chunks <= 5 bytes; read window reduced to 16 by the guarded hook "
       "CARES_VERIF_READ_WINDOW; the truncation (TC) retry rule is the answer_step jobs, the frame queueing / rollback on a "
       "failed serialisation the framing_placement jobs (shared with C05 / C03)."),
 "C17": dict(
  text="Bounded model checking (CBMC) of the whole real ares_cookie.c: ONE ares_cookie_apply or ONE ares_cookie_validate from "
       "an ARBITRARY cookie state (all four states, arbitrary cookies/timestamps/addresses), symbolic clock, transport, "
       "request OPT presence and response cookie (absent / every length 0..41 / BADCOOKIE), compared field by field with a "
       "reference transition function written from RFC 7873 and the file's implementation plan, plus direct assertions of the "
       "property's sentences. Timers are integers, so the 120 s / 300 s / 1 day periods are crossed symbolically.",
  design="DESIGN.md §4 C17",
  note="Assumes the abstract 1-slot COOKIE option store for the record layer, ares_requeue_query as a recorder, the cookie "
       "state invariant listed in the evidence (re-established by every step: inductive)."),
 "C08": dict(
  text="Bounded model checking (CBMC) of the real ares_qcache.c kernels from ARBITRARY valid cache states: insert (rcode/TC "
       "filter, min-TTL / SOA-minimum lifetime, max_ttl cap, zero cases), fetch (strict expiry boundary, TTL decrement), "
       "flush; the real key builder on request pairs differing in one attribute; the real record code for every TTL "
       "accessor under ttl_decrement; the real ares_servers_update / reinit paths for flush-on-change.",
  design="DESIGN.md §4 C08",
  note="Assumes the abstract record interface and reference containers listed in the evidence; <= 3 RRs per response, "
       "<= 2 pre-existing cache entries, names <= the stated lengths; question count 1."),
 "C02": dict(
  text="Bounded model checking (CBMC) of the real parsers on exact-size buffers with symbolic bytes: every ares_buf reader "
       "primitive from an arbitrary cursor state; ares_dns_name_parse / ares_expand_name / ares_expand_string on ALL byte "
       "strings up to the stated lengths (the unwinding assertion is the no-loop claim) plus pointer-rule reject shapes; the "
       "per-RR parser for every RR type x RDLENGTH disagreement x truncation; whole ares_dns_parse on truncated one-RR "
       "messages; leak checks on every path.",
  design="DESIGN.md §4 C02",
  note="Shapes (lengths, types, embedded length bytes, header flags) concrete per job, all other bytes symbolic; arbitrary-byte "
       "strings up to 12 (skip mode) / 3 (output mode) bytes in the quick tier, deeper in thorough; multi-RR messages and "
       "ares_buf_split are outside the claim (see evidence)."),
 "C05": dict(
  text="Bounded model checking (CBMC) of the real acceptance path: ONE process_answer() (with same_questions, EDNS/TC/rcode "
       "handling, end_query, server credit) for an ARBITRARY abstract response arriving on a connection while a request is in "
       "flight on that or another connection; every combination of id match, question name/type match and letter case, "
       "0x20 setting, transport, TC, rcode, OPT presence, cookie verdict, parse failure. Delivery, caching and server credit "
       "must happen only for authentic matching responses.",
  design="DESIGN.md §4 C05",
  note="Record layer abstract (the parser stub hands out the abstract response), cookie verdict symbolic (C17 checks the real "
       "one), nested requeue is a contract stub. Known finding stale_conn_reply (reply on a connection the request is no "
       "longer assigned to is accepted) is reported, not hidden; the UDP source-address filter is checked in C20's "
       "read_append_udp jobs; id uniqueness / 0x20 bit application kernels are not yet built."),
 "C07": dict(
  text="Bounded model checking (CBMC): ares_timeout() for arbitrary clocks/deadlines/maxtv (never negative, exactly "
       "min(time to earliest deadline, caller maximum)); process_timeouts() retries/fails exactly the requests at or past "
       "their deadline; ares_send_query registers a future deadline; and the event-thread wake obligation (registering the "
       "earliest deadline must fire a wake path) with the event thread's callbacks as recorders.",
  design="DESIGN.md §4 C07",
  note="Kernel wake-up and wall-clock liveness are outside solver reach. One event-thread loop iteration (ms conversion, "
       "evloop_step) and the real epoll/poll/select wait() conversions (backend_wait_*, system call = recording stub) are "
       "covered; kqueue/win32 backends are not built on this platform. Findings evthread_idle_conn_nowake (bcf9263) and "
       "backend_timeout_int_overflow (67dedc2) were repaired."),
 "C09": dict(
  text="Bounded model checking (CBMC): the server comparator is a strict weak order on (failures, config index) for all "
       "values; failure/success bookkeeping re-sorts and demotes/restores; probes are separate NOCACHE|NORETRY requests to a "
       "failed server past its retry time, never the one just used, never altering the user's request; one level of "
       "ares_send_query from an arbitrary server state picks a server with the fewest failures (first in config order "
       "without rotation).",
  design="DESIGN.md §4 C09",
  note="Reference skip list (real one in C19); <= 2 servers in the send step, <= 3 in the health steps; RNG arbitrary, so "
       "uniformity of rotation is not claimed, only membership in the best class."),
 "C10": dict(
  text="Bounded model checking (CBMC) with a virtual socket ledger (descriptors never reused; every call asserts 'open'): "
       "ares_open_connection under every socket-layer / callback / allocation failure (nothing left open, registered or "
       "announced on failure; exactly one on success); ares_check_cleanup_conns and ares_close_sockets from arbitrary "
       "connection sets (closed exactly once, told to stop exactly once, busy connections never closed by cleanup); "
       "ares_fds / ares_getsock report exactly the open sockets that matter; one level of ares_send_query keeps the "
       "descriptor protocol and the udp_max_queries limit.",
  design="DESIGN.md §4 C10",
  note="Histories are covered inductively (one step from an arbitrary valid connection set, <= 2 servers x <= 2 "
       "connections). Also: the RFC 6724 probe socket of ares_sortaddrinfo (src_probe_*), ares_destroy / close teardown, "
       "process_write, and the library's own default socket functions (default_asocket never leaks the kernel descriptor)."),
 "C03": dict(
  text="Bounded model checking (CBMC) of the real record/codec code (no stubs): per RR type build through the public setters "
       "with symbolic values -> ares_dns_write -> <= 65535 -> ares_dns_parse -> every key equal through the public getters -> "
       "write again -> identical bytes; header flag/opcode/rcode matrix; ares_dns_write_buf_tcp into a buffer already "
       "holding P bytes equals ares_dns_write of the same record (compression shapes); ares_nameoffset_find with symbolic "
       "offsets up to 70000 and the name writer at boundary offsets; escapes; legacy query builders; ares_dnsrec_convert_cb.",
  design="DESIGN.md §4 C03, §8",
  note="Names, strings, types and validated header values are concrete per job (shape enumeration), all other field values "
       "symbolic; <= 2 RRs per record; sizes near 16 KiB / 64 KiB only as offset arithmetic. Open known finding "
       "write_unparseable_string."),
 "C04": dict(
  text="Differential bounded model checking (CBMC): the real ares_dns_parse and an independent RFC reference decoder "
       "(harness/C04/refdec.c, validated natively on the repository's fuzz corpus and ~5000 generated inputs each run of "
       "validate_refdec.sh) run on the SAME symbolic-valued wire bytes per shape; every header, question and RR field must "
       "agree whenever the parser accepts, and the parser must accept whatever the reference calls well-formed in the "
       "stated subset.",
  design="DESIGN.md §4 C04, §8",
  note="One question + one RR per message, type/class/lengths concrete per shape; supported subset stated in refdec.h (e.g. "
       "non-empty CAA value, ascending SVCB keys). Open known finding opt_duplicate_merged."),
 "C15": dict(
  text="Bounded model checking (CBMC) of the real configuration text parsers on symbolic bytes at concrete lengths: resolv.conf "
       "option tokens, nameserver strings, sortlists, resolv.conf lines (incl. the metamorphic junk-line independence), "
       "host aliases, inet_pton: no out-of-bounds access of the fixed buffers, no leak, only success/no-memory from line "
       "handlers, results within documented ranges.",
  design="DESIGN.md §4 C15",
  note="ares_array replaced by a fixed-capacity reference in these jobs; ares_inet_pton contract-stubbed in the deeper jobs "
       "(real converter checked separately). The dns:// name server form (URI parser itself abstract), nsswitch.conf / svc.conf "
       "lines, the multi-line driver and the hosts-file reader (concrete files only: arbitrary hosts bytes did not close) are "
       "covered by the c15_nsuri / c15_nsswitch / c15_svcconf / c15_procbuf / c15_cfgfile / c15_hosts jobs; ares_uri.c's own "
       "tokenizer is outside the claim."),
 "C16": dict(
  text="Bounded model checking (CBMC): ares_sysconfig_apply never changes a field whose option bit is set (symbolic mask and "
       "values); ares_save_options -> ares_init_by_options reproduces every saved field; server address text render/parse "
       "round trip; inet_ntop/pton on all 2^32 IPv4 addresses; ares_dup copies the non-option settings.",
  design="DESIGN.md §4 C16",
  note="Server text round trip proved in two halves meeting at a text model; dns:// URI rendering (differing ports) outside the "
       "claim; heavy setters are recorders in the user-wins kernel. c16_initopts establishes the reachable-state invariant the "
       "other jobs assume; c16_servers_update_* compare the resulting server list entry by entry; c16_sockfuncs_install "
       "checks the function table the link-local interface handling depends on."),
 "C18": dict(
  text="Differential bounded model checking (CBMC): each of the 11 legacy ares_parse_*_reply functions against the record "
       "API on the same symbolic-valued message shapes (1-2 answers, optional CNAME, truncation / RDLENGTH faults): "
       "malformed iff the record parser rejects, results equal in order and field by field, caller capacity never "
       "exceeded (exact-size arrays), everything released by the matching free function; alias chains of two; an allocation "
       "failing during the conversion gives ENOMEM with nothing returned or the complete answer; ares_data type tags.",
  design="DESIGN.md §4 C18",
  note="Shapes with concrete names/types; TTLs < 2^31. Open known finding legacy_nodata_success (pinned by the repository's "
       "own tests)."),
 "C12": dict(
  text="Bounded model checking (CBMC): the real ares_search_name_list() against a reference written from resolv.conf(5) "
       "for all names of length 0..4 over {a, '.', '\\'}, ndots, domain lists incl. the root domain, NOSEARCH/NOALIASES, "
       "alias hit/miss/failure and any single allocation failure; the candidate walk of ares_search.c (C01/search.c, one "
       "step, inductive) and of ares_getaddrinfo.c (next_lookup / host_callback / end_hquery, one step): candidates in "
       "list order, stop at first data or hard error, no-data beats not-found, callback exactly once.",
  design="DESIGN.md §4 C12",
  note="Alias file abstracted behind the ares_buf/ares_array calls of ares_lookup_hostaliases (real line parser: C15); "
       "sends and answer parsing are contract stubs in the walk harnesses; names up to 4 (quick) / 5 (thorough) bytes."),
 "C13": dict(
  text="Bounded model checking (CBMC): ares_sortaddrinfo relinks a permutation of its input nodes (N<=3, symbolic addresses, "
       "real comparator, reference sort in place of qsort) and the comparator is a consistent order; the sortlist "
       "insertion sort keeps the address multiset; ares_parse_into_addrinfo yields exactly the A/AAAA answers of the "
       "requested family with port and TTL and the CNAME chain; addrinfo->hostent/addrttl copy one-to-one within "
       "capacity; ares_dns_addr_to_ptr for all IPv4 (digit-shape enumeration) and IPv6 addresses; localhost rule.",
  design="DESIGN.md §4 C13",
  note="Socket probes of find_src_addr are contract stubs; libc qsort replaced by a reference sort; end-to-end "
       "ares_getaddrinfo outside the claim (its completion step is the gai_walk jobs, the hosts-file entry conversion the "
       "c13_hosts_entry jobs). Open known finding sort_compare_nontransitive."),
 "C11": dict(
  text="Bounded model checking (CBMC) of the LOCKING DISCIPLINE and of two-thread slices by context-bounded "
       "sequentialisation (thread B's whole call runs at a synchronisation point of thread A): every public entry point "
       "touches shared channel state only with the channel lock held and releases it on every path; two concurrent "
       "ares_reinit callers and ares_reinit vs ares_destroy (thread handle never overwritten or missed while unjoined, no "
       "join-under-lock deadlock); ares_queue_wait_empty returns success only with an empty queue under the lock, for all "
       "wake-up patterns and timeouts; the event thread never holds its mutex while calling into the channel.",
  design="DESIGN.md §4 C11",
  note="NOT claimed: data-race freedom of fields touched inside internal functions/containers, the OS primitives, more than "
       "two threads or two context switches per pair of calls, wall-clock liveness. Locks are ghost depth counters."),
 "C14": dict(
  text="Bounded model checking (CBMC) with the failing allocation index as a solver-chosen, case-split variable: for each "
       "scenario (ares_buf operations, array/list/skip-list/hash-table operations incl. ares_htable_expand, record building "
       "through the public setters, ares_dns_write / ares_dns_parse of small messages, query-cache insert/fetch, search "
       "start, ares_send_nolock, ares_open_connection, addrinfo/hostent builders, option parsing) every allocation "
       "position fails in turn: no invalid access, failure reported or correct result, object unchanged/consistent and "
       "destroyable, allocator ledger back to its entry value, callbacks exactly once.",
  design="DESIGN.md §4 C14",
  note="One failure per call; allocation counts per scenario are measured natively and BOUND-checked; whole "
       "ares_init_options / ares_reinit / end-to-end getaddrinfo and the file readers under failure are outside the claim. "
       "Added: process_answer / ares_requeue_query / ares_send_query steps and name presentation with a concrete failing "
       "allocation index."),
}
NA = {}
for i in range(1, 21):
    pid = "C%02d" % i
    if pid not in CLAIMS:
        NA[pid] = "check not built yet in this round (design in DESIGN.md §4 %s); not claimed until a harness closes" % pid

def main():
    m = {
     "version": 1,
     "setup_cmd": "sh vp/setup.sh",
     "hooks": {"guard": "CARES_VERIF",
               "enable": "vp/run.py passes -DCARES_VERIF to goto-cc for every translation unit it builds from /repo; the only "
                         "source hook is -DCARES_VERIF_READ_WINDOW=<n> (read_conn_packets read window), passed by the C20 jobs",
               "baseline_off_cmd": "python3 vp/baseline_cmp.py",
               "source_commits": ["5066bcf"], "add_only": True},
     "engines": [{"name": "cbmc-harness-runner", "path": "vp/run.py", "serves_properties": sorted(CLAIMS),
                  "kind_free_text": "goto-cc + CBMC 6.11 bounded model checking of real TUs, one job per harness x shape; "
                                    "native ASan/UBSan replay of counterexamples"}],
     "checks": [], "not_applicable": [],
     "notes": "Exit codes of ./check: 0 held, 1 VIOLATION, 2 inconclusive (bound exceeded / no verdict / vacuous witness). "
              "known_findings.json lists genuine defects (open or fixed)."}
    for pid in sorted(CLAIMS):
        c = CLAIMS[pid]
        m["checks"].append({
          "property_id": pid, "quick_cmd": "./check %s --tier quick" % pid,
          "thorough_cmd": "./check %s --tier thorough" % pid,
          "evidence_file": "evidence/%s.json" % pid,
          "replay_cmd_template": "./check %s --replay {path}" % pid,
          "engine": "cbmc-harness-runner",
          "level_claimed": {"category": "model_checking", "text": c["text"], "design_ref": c["design"]},
          "level_note": c["note"], "technique": c.get("technique", TECH)})
    for pid in sorted(NA):
        m["not_applicable"].append({"property_id": pid, "reason": NA[pid]})
    json.dump(m, open(os.path.join(V, "MANIFEST.json"), "w"), indent=1)
    print("claimed:", sorted(CLAIMS), "n/a:", sorted(NA))
if __name__ == "__main__":
    main()
