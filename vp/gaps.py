#!/usr/bin/env python3
"""gaps.py: for every property, the functions defined in its anchor files (properties.jsonl) that no job of that
property encodes (evidence/<id>.json coverage.functions_encoded) - a reading aid for finding mechanisms no harness
exercises yet.  Purely informational."""
import json, re, sys
props = [json.loads(l) for l in open('/verif/properties.jsonl')]
enc = {}
for p in props:
    try:
        e = json.load(open('/verif/evidence/%s.json' % p['id']))
        enc[p['id']] = set(e['coverage'].get('functions_encoded', []))
    except Exception:
        enc[p['id']] = set()
allenc = set().union(*enc.values())
def funcs(path):
    try:
        s = open('/repo/' + path).read()
    except Exception:
        return []
    out = []
    for m in re.finditer(r'^(?:static\s+)?(?:const\s+)?(?:[A-Za-z_]\w*[\s\*]+)+?([A-Za-z_]\w*)\s*\([^;{}]*\)\s*\{', s, re.M):
        n = m.group(1)
        if n not in ('if', 'for', 'while', 'switch', 'return', 'sizeof'):
            out.append(n)
    return out
only = sys.argv[1:] 
for p in props:
    if only and p['id'] not in only:
        continue
    print(p['id'], 'encoded by its jobs:', len(enc[p['id']]))
    for f in p['anchors']['files']:
        if not f.endswith('.c'):
            continue
        fs = funcs(f)
        m = [x for x in fs if x not in enc[p['id']]]
        m2 = [x for x in m if x not in allenc]
        print('   %-42s defs %3d  not in this property %3d  in no property %3d %s' % (f, len(fs), len(m), len(m2), ' '.join(m2[:40])))
